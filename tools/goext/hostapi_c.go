package main

// Lexical scan of the C modules of package contract (C20).  No C parser: comments and string literals are
// blanked, top-level `name(args) {` … matching `}` are function bodies, `ident(` inside a body is a call,
// `luaL_Reg t[] = { {"name", cfunc}, … }` are the Lua functions a module registers.  Emitted as generated
// facts: which Lua functions exist, which Go callbacks each can reach (transitively through C functions
// defined in these files), which guard calls precede the first SQL execution, who calls the
// internal-only callbacks (luaViewStart/End, luaDropEvent, luaClearRecovery, luaSetRecoveryPoint), and the
// wiring of the view bracket function pointers.  Self-contained (also linked into harness/c20).

import (
	"fmt"
	"os"
	"path/filepath"
	"regexp"
	"sort"
	"strings"
)

type HCFunc struct {
	File, Name string
	Body       string   // blanked body text
	Calls      []string // distinct callee identifiers in order of first occurrence
}

type HCLuaFn struct {
	File, Table, LuaName, CFunc string
	Callbacks                   []string  // exported Go callbacks reachable from CFunc
	SQLStep                     bool      // reaches sqlite3_step (executes SQL)
	GuardsBeforeStep            []string  // guard calls in CFunc's own body that lexically precede the first (transitive) SQL step
	Guards                      []HCGuard // the same guard calls with the comparison their `if` makes and what the guarded statement does
}

type HCFacts struct {
	Files           []string
	Funcs           map[string]*HCFunc
	LuaFns          []HCLuaFn
	CallbackCallers [][2]string // (Go callback, C function that calls it directly), sorted
	FnPtrWiring     [][2]string // `lj_internal_* = f;` assignments: (pointer, function)
	ErrChecks       [][4]string // (Go callback that refuses with an error value, C caller, test of the returned value, raise|noraise)
	Refusing        []string    // exported Go callbacks that have a refusing flag branch, in program order
	// round 3b: the keyword gate of db.query (sqlcheck.c) and the gates in front of sqlite3_prepare
	SQLReadonlyFirst   [][2]string // (leading keyword, prefix|exact|pragma|unrecognised) for which sqlcheck_is_readonly_sql answers non-zero
	SQLReadonlyPragmas [][2]string // (pragma name, prefix|exact|unrecognised) that sqlcheck_is_permitted_pragma admits
	PrepareGates       [][2]string // (table.luaName of a registered function that calls sqlite3_prepare*, gate calls before it, comma separated)
}

var hcGuards = map[string]bool{"luaCheckView": true, "sqlcheck_is_readonly_sql": true, "sqlite3_stmt_readonly": true}

// C calls that execute SQL / change database content
var hcSQLExec = map[string]bool{"sqlite3_step": true, "sqlite3_exec": true, "sqlite3_get_table": true, "sqlite3_blob_write": true,
	"sqlite3_backup_step": true, "sqlite3_deserialize": true, "sqlite3_load_extension": true}
var hcKeywords = map[string]bool{"if": true, "while": true, "for": true, "switch": true, "return": true, "sizeof": true, "defined": true}

// hcBlank replaces comments (and, if strs, string/char literals) by spaces, keeping offsets and newlines.
func hcBlank(src string, strs bool) string {
	b := []byte(src)
	i := 0
	for i < len(b) {
		switch {
		case b[i] == '/' && i+1 < len(b) && b[i+1] == '/':
			for i < len(b) && b[i] != '\n' {
				b[i] = ' '
				i++
			}
		case b[i] == '/' && i+1 < len(b) && b[i+1] == '*':
			for i < len(b) && !(b[i] == '*' && i+1 < len(b) && b[i+1] == '/') {
				if b[i] != '\n' {
					b[i] = ' '
				}
				i++
			}
			if i < len(b) {
				b[i], b[i+1] = ' ', ' '
				i += 2
			}
		case b[i] == '"' || b[i] == '\'':
			q := b[i]
			j := i + 1
			for j < len(b) && b[j] != q && b[j] != '\n' {
				if b[j] == '\\' {
					j++
				}
				j++
			}
			if strs {
				for k := i + 1; k < j && k < len(b); k++ {
					b[k] = ' '
				}
			}
			i = j + 1
		default:
			i++
		}
	}
	return string(b)
}

var hcDefRe = regexp.MustCompile(`([A-Za-z_]\w*)\s*\(([^(){};]|\([^()]*\))*\)\s*$`)
var hcCallRe = regexp.MustCompile(`\b([A-Za-z_]\w*)\s*\(`)
var hcRegRe = regexp.MustCompile(`luaL_Reg\s+(\w+)\s*\[\s*\]\s*=\s*\{`)
var hcEntRe = regexp.MustCompile(`\{\s*"([^"]*)"\s*,\s*(\w+)\s*\}`)
var hcPtrRe = regexp.MustCompile(`\b(lj_internal_\w+)\s*=\s*(\w+)\s*;`)
var hcIfRe = regexp.MustCompile(`\bif\s*\(`)

func hcFunctions(file, blank string) []*HCFunc {
	var out []*HCFunc
	depth := 0
	start := 0 // offset after the last top-level ';' or '}'
	for i := 0; i < len(blank); i++ {
		switch blank[i] {
		case '{':
			if depth == 0 {
				head := blank[start:i]
				// drop preprocessor lines
				var keep []string
				for _, ln := range strings.Split(head, "\n") {
					if !strings.HasPrefix(strings.TrimSpace(ln), "#") {
						keep = append(keep, ln)
					}
				}
				head = strings.TrimRight(strings.Join(keep, "\n"), " \t\n")
				if m := hcDefRe.FindStringSubmatch(head); m != nil && !strings.Contains(head, "=") && !hcKeywords[m[1]] {
					// find matching brace
					d, j := 0, i
					for ; j < len(blank); j++ {
						if blank[j] == '{' {
							d++
						} else if blank[j] == '}' {
							d--
							if d == 0 {
								break
							}
						}
					}
					body := blank[i : j+1]
					f := &HCFunc{File: file, Name: m[1], Body: body}
					seen := map[string]bool{}
					for _, c := range hcCallRe.FindAllStringSubmatch(body, -1) {
						if !hcKeywords[c[1]] && !seen[c[1]] {
							seen[c[1]] = true
							f.Calls = append(f.Calls, c[1])
						}
					}
					out = append(out, f)
				}
			}
			depth++
		case '}':
			depth--
			if depth == 0 {
				start = i + 1
			}
		case ';':
			if depth == 0 {
				start = i + 1
			}
		}
	}
	return out
}

// HScanC scans dir/*.c.  Exported callbacks are taken from the Go extraction.
func HScanC(dir string, prog *HProgram) (*HCFacts, error) {
	facts := &HCFacts{Funcs: map[string]*HCFunc{}}
	ents, err := os.ReadDir(dir)
	if err != nil {
		return nil, err
	}
	exported := map[string]bool{}
	for _, f := range prog.Funcs {
		if f.Exported {
			exported[f.Name] = true
		}
	}
	type reg struct{ file, table, lua, cfunc string }
	var regs []reg
	for _, e := range ents {
		n := e.Name()
		if !strings.HasSuffix(n, ".c") || n == "sqlite3-binding.c" {
			continue
		}
		src, err := os.ReadFile(filepath.Join(dir, n))
		if err != nil {
			return nil, err
		}
		facts.Files = append(facts.Files, n)
		noComments := hcBlank(string(src), false)
		blank := hcBlank(string(src), true)
		for _, f := range hcFunctions(n, blank) {
			if _, dup := facts.Funcs[f.Name]; dup {
				// static functions of the same name in two files: keep both under a file-qualified key
				facts.Funcs[n+":"+f.Name] = f
				continue
			}
			facts.Funcs[f.Name] = f
		}
		for _, m := range hcRegRe.FindAllStringSubmatchIndex(noComments, -1) {
			table := noComments[m[2]:m[3]]
			end := strings.Index(noComments[m[1]:], "};")
			if end < 0 {
				return nil, fmt.Errorf("%s: unterminated luaL_Reg %s", n, table)
			}
			for _, en := range hcEntRe.FindAllStringSubmatch(noComments[m[1]:m[1]+end], -1) {
				regs = append(regs, reg{n, table, en[1], en[2]})
			}
		}
		for _, m := range hcPtrRe.FindAllStringSubmatch(blank, -1) {
			facts.FnPtrWiring = append(facts.FnPtrWiring, [2]string{m[1], m[2]})
		}
		if n == "sqlcheck.c" {
			facts.SQLReadonlyFirst, facts.SQLReadonlyPragmas = hcSQLCheckRules(hcFunctions(n, noComments))
		}
	}
	lookup := func(file, name string) *HCFunc {
		if f, ok := facts.Funcs[file+":"+name]; ok {
			return f
		}
		if f, ok := facts.Funcs[name]; ok {
			return f
		}
		return nil
	}
	// transitive reachability
	var reach func(f *HCFunc, seen map[*HCFunc]bool, cbs map[string]bool) bool
	reach = func(f *HCFunc, seen map[*HCFunc]bool, cbs map[string]bool) bool {
		if seen[f] {
			return false
		}
		seen[f] = true
		step := false
		for _, c := range f.Calls {
			if hcSQLExec[c] {
				step = true
			}
			if exported[c] {
				cbs[c] = true
			}
			if g := lookup(f.File, c); g != nil {
				if reach(g, seen, cbs) {
					step = true
				}
			}
		}
		return step
	}
	for _, r := range regs {
		lf := HCLuaFn{File: r.file, Table: r.table, LuaName: r.lua, CFunc: r.cfunc}
		f := lookup(r.file, r.cfunc)
		if f != nil {
			cbs := map[string]bool{}
			lf.SQLStep = reach(f, map[*HCFunc]bool{}, cbs)
			for c := range cbs {
				lf.Callbacks = append(lf.Callbacks, c)
			}
			sort.Strings(lf.Callbacks)
			if lf.SQLStep {
				// first position in the body of a call that (transitively) executes SQL
				first := len(f.Body)
				for _, m := range hcCallRe.FindAllStringSubmatchIndex(f.Body, -1) {
					c := f.Body[m[2]:m[3]]
					isStep := hcSQLExec[c]
					if g := lookup(f.File, c); g != nil && !isStep {
						isStep = reach(g, map[*HCFunc]bool{}, map[string]bool{})
					}
					if isStep {
						first = m[0]
						break
					}
				}
				for _, m := range hcCallRe.FindAllStringSubmatchIndex(f.Body, -1) {
					c := f.Body[m[2]:m[3]]
					if hcGuards[c] && m[0] < first {
						lf.GuardsBeforeStep = append(lf.GuardsBeforeStep, c)
						lf.Guards = append(lf.Guards, hcGuardAt(f.Body, m[2], c))
					}
				}
			}
		} else {
			lf.CFunc = r.cfunc + " (not defined in the scanned files)"
		}
		facts.LuaFns = append(facts.LuaFns, lf)
		if f != nil {
			// gates in front of the first sqlite3_prepare* call of the function itself
			for _, m := range hcCallRe.FindAllStringSubmatchIndex(f.Body, -1) {
				if strings.HasPrefix(f.Body[m[2]:m[3]], "sqlite3_prepare") {
					var gates []string
					for _, g := range hcCallRe.FindAllStringSubmatchIndex(f.Body, -1) {
						c := f.Body[g[2]:g[3]]
						if g[0] < m[0] && (hcGuards[c] || c == "sqlcheck_is_permitted_sql") {
							gates = append(gates, c)
						}
					}
					facts.PrepareGates = append(facts.PrepareGates, [2]string{r.table + "." + r.lua, strings.Join(gates, ",")})
					break
				}
			}
		}
	}
	var names []string
	for k := range facts.Funcs {
		names = append(names, k)
	}
	sort.Strings(names)
	refusing := map[string]bool{}
	for _, r := range prog.Facts.FlagBranches {
		if strings.Contains(r[2], "refuse") && exported[r[0]] && !refusing[r[0]] {
			refusing[r[0]] = true
			facts.Refusing = append(facts.Refusing, r[0])
		}
	}
	for _, k := range names {
		f := facts.Funcs[k]
		for _, c := range f.Calls {
			if exported[c] {
				facts.CallbackCallers = append(facts.CallbackCallers, [2]string{c, f.Name})
			}
			if refusing[c] {
				facts.ErrChecks = append(facts.ErrChecks, hcErrChecks(f, c)...)
			}
		}
	}
	sort.Slice(facts.ErrChecks, func(i, j int) bool {
		a, b := facts.ErrChecks[i], facts.ErrChecks[j]
		for k := 0; k < 4; k++ {
			if a[k] != b[k] {
				return a[k] < b[k]
			}
		}
		return false
	})
	sort.Slice(facts.CallbackCallers, func(i, j int) bool {
		a, b := facts.CallbackCallers[i], facts.CallbackCallers[j]
		if a[0] != b[0] {
			return a[0] < b[0]
		}
		return a[1] < b[1]
	})
	return facts, nil
}

// Line: canonical one-line rendering of a Lua function fact (harness and model driver print the same).
func (f *HCLuaFn) Line() string {
	var gs []string
	for _, g := range f.Guards {
		cmp := g.Cmp
		if cmp == "gt" || cmp == "ge" || cmp == "ne" {
			cmp = fmt.Sprintf("%s%d", cmp, g.K)
		}
		r := "noraise"
		if g.Raise {
			r = "raise"
		}
		gs = append(gs, g.Call+":"+cmp+":"+r)
	}
	return fmt.Sprintf("cfunc=%s callbacks=[%s] sqlstep=%v guards=[%s] stopsview=%v", strings.ReplaceAll(f.CFunc, " ", "_"),
		strings.Join(f.Callbacks, ","), f.SQLStep, strings.Join(gs, ","), f.ViewGuarded())
}

// ViewGuarded: some guard in front of the SQL execution is `if (luaCheckView(…) ⋈ k) <raise>` with a comparison that
// holds for every positive view depth (mirror of CLuaFn.viewGuarded in Model.HostApi).
func (f *HCLuaFn) ViewGuarded() bool {
	for _, g := range f.Guards {
		if g.Call != "luaCheckView" || !g.Raise {
			continue
		}
		switch g.Cmp {
		case "gt", "ne":
			if g.K <= 0 {
				return true
			}
		case "ge":
			if g.K <= 1 {
				return true
			}
		case "truthy":
			return true
		}
	}
	return false
}
