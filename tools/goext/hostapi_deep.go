package main

// Host-API extractor, round 3 (C20 deepening).  Self-contained like the other hostapi_*.go files (also linked
// into harness/c20).
//
//   - whose flag is tested: a test of `.isQuery` / `.nestedView` counts as the read-only test only when its
//     receiver is the function's *own* context (ownCtx): `contexts[<parameter>]`, a parameter / receiver of type
//     *vmContext, `<executor receiver or parameter>.ctx`, or a local all of whose assignments are such
//     expressions or a context constructor.  Anything else is an opaque condition and is listed (FlagForeign).
//     A *vmContext handed to an in-package function (or put into an executor literal) must be the own context
//     as well (CtxArgs; otherwise an `unknown:` sink).
//   - normalised condition texts (hxNormText): `x == true` → `x`, `x != true` → `!x`, `0 < x` → `x > 0`,
//     redundant parentheses dropped; the fact tables render conditions over the abstract flags (hxCondText).
//   - database/sql: `sql.Open` is a read only if its DSN carries the literal `_query_only=true`, otherwise it opens
//     a writable connection (mutQ); Exec / ExecContext are classified by the leading SQL text (SQLPrefixes).
//   - error returns (`refuse` events), reviewed exemptions (`exempt` event at the head of a body), writes of
//     executor.isView (`viewSet` events).

import (
	"fmt"
	"go/ast"
	"go/parser"
	"go/token"
	"path/filepath"
	"regexp"
	"sort"
	"strconv"
	"strings"
)

// ---------------------------------------------------------------------------------- own context

func (x *hxExtractor) paramType(name string) ast.Expr {
	for _, fl := range []*ast.FieldList{x.fd.Recv, x.fd.Type.Params} {
		if fl == nil {
			continue
		}
		for _, f := range fl.List {
			for _, id := range f.Names {
				if id.Name == name {
					return f.Type
				}
			}
		}
	}
	return nil
}

// collectAssignRHS: for every identifier, the right-hand sides assigned to it in the body (nil entry = an
// assignment whose source cannot be attributed, e.g. a range variable or `var v T` without a value).
func (x *hxExtractor) collectAssignRHS(body ast.Node) {
	x.assignRHS = map[string][]ast.Expr{}
	add := func(name string, e ast.Expr) {
		if name != "_" {
			x.assignRHS[name] = append(x.assignRHS[name], e)
		}
	}
	ast.Inspect(body, func(n ast.Node) bool {
		switch s := n.(type) {
		case *ast.AssignStmt:
			for i, l := range s.Lhs {
				id, ok := l.(*ast.Ident)
				if !ok {
					continue
				}
				switch {
				case len(s.Lhs) == len(s.Rhs):
					add(id.Name, s.Rhs[i])
				case len(s.Rhs) == 1 && i == 0:
					add(id.Name, s.Rhs[0]) // first result of a call
				default:
					add(id.Name, nil)
				}
			}
		case *ast.ValueSpec:
			for i, id := range s.Names {
				if i < len(s.Values) {
					add(id.Name, s.Values[i])
				}
				// `var v T` alone: the zero value (nil for a pointer) — not a source
			}
		case *ast.RangeStmt:
			for _, l := range []ast.Expr{s.Key, s.Value} {
				if id, ok := l.(*ast.Ident); ok {
					add(id.Name, nil)
				}
			}
		case *ast.UnaryExpr:
			if s.Op == token.AND {
				if id, ok := s.X.(*ast.Ident); ok {
					add(id.Name, nil) // address taken: may be written through the pointer
				}
			}
		}
		return true
	})
}

// ownCtx: e denotes the vmContext this function works for.
func (x *hxExtractor) ownCtx(e ast.Expr, depth int) bool {
	if depth > 4 {
		return false
	}
	switch v := e.(type) {
	case *ast.ParenExpr:
		return x.ownCtx(v.X, depth)
	case *ast.Ident:
		if t := x.paramType(v.Name); t != nil {
			return hxBaseName(t) == "vmContext"
		}
		if !x.locals[v.Name] {
			return false
		}
		rhs := x.assignRHS[v.Name]
		if len(rhs) == 0 {
			return false
		}
		for _, r := range rhs {
			if r == nil || !x.ownCtx(r, depth+1) {
				return false
			}
		}
		return true
	case *ast.IndexExpr:
		base, ok := v.X.(*ast.Ident)
		if !ok || base.Name != "contexts" || x.locals["contexts"] {
			return false
		}
		idx, ok := v.Index.(*ast.Ident)
		return ok && x.paramType(idx.Name) != nil
	case *ast.SelectorExpr:
		if v.Sel.Name != "ctx" {
			return false
		}
		id, ok := v.X.(*ast.Ident)
		if !ok {
			return false
		}
		if t := x.paramType(id.Name); t != nil {
			return hxBaseName(t) == "executor"
		}
		// a local executor all of whose sources are in-package constructors that were handed the own context
		if !x.locals[id.Name] || len(x.assignRHS[id.Name]) == 0 {
			return false
		}
		for _, r := range x.assignRHS[id.Name] {
			if r == nil || !x.executorOfOwnCtx(r, depth+1) {
				return false
			}
		}
		return true
	case *ast.CallExpr:
		if id, ok := v.Fun.(*ast.Ident); ok && x.tab.CtxBuilders[id.Name] && !x.locals[id.Name] {
			return true
		}
	}
	return false
}

// executorOfOwnCtx: e is a call of an in-package function whose first result is an *executor and all of whose
// *vmContext arguments are the own context (newExecutor(..., ctx, ...)).
func (x *hxExtractor) executorOfOwnCtx(e ast.Expr, depth int) bool {
	c, ok := hxUnparen(e).(*ast.CallExpr)
	if !ok {
		return false
	}
	id, ok := c.Fun.(*ast.Ident)
	if !ok || x.locals[id.Name] {
		return false
	}
	fd := x.pkg.funcs[id.Name]
	if fd == nil || fd.Type.Results == nil || len(fd.Type.Results.List) == 0 || hxBaseName(fd.Type.Results.List[0].Type) != "executor" {
		return false
	}
	seen := false
	i := 0
	for _, f := range fd.Type.Params.List {
		n := len(f.Names)
		if n == 0 {
			n = 1
		}
		for k := 0; k < n; k++ {
			if hxBaseName(f.Type) == "vmContext" {
				if i >= len(c.Args) || !x.ownCtx(c.Args[i], depth+1) {
					return false
				}
				seen = true
			}
			i++
		}
	}
	return seen
}

// flagField: e is `<own context>.<f>`; a selector of that name on anything else is recorded as foreign.
func (x *hxExtractor) flagField(e ast.Expr, f string) bool {
	for {
		if p, ok := e.(*ast.ParenExpr); ok {
			e = p.X
			continue
		}
		break
	}
	s, ok := e.(*ast.SelectorExpr)
	if !ok || s.Sel.Name != f {
		return false
	}
	if x.ownCtx(s.X, 0) {
		return true
	}
	row := [2]string{x.fn.Name, hxExprString(x.fset, e)}
	for _, r := range x.prog.Facts.FlagForeign {
		if r == row {
			return false
		}
	}
	x.prog.Facts.FlagForeign = append(x.prog.Facts.FlagForeign, row)
	return false
}

// isViewRead: `<executor receiver or parameter>.isView`
func (x *hxExtractor) isViewRead(e ast.Expr) bool {
	s, ok := e.(*ast.SelectorExpr)
	if !ok || s.Sel.Name != "isView" {
		return false
	}
	id, ok := s.X.(*ast.Ident)
	if !ok {
		return false
	}
	t := x.paramType(id.Name)
	return t != nil && hxBaseName(t) == "executor"
}

// ctxArgs checks the *vmContext arguments of a call of the in-package function fd.
func (x *hxExtractor) ctxArgs(callee string, fd *ast.FuncDecl, c *ast.CallExpr) *HStmt {
	if fd == nil || fd.Type.Params == nil {
		return hxSkip()
	}
	i := 0
	var out []*HStmt
	for _, f := range fd.Type.Params.List {
		n := len(f.Names)
		if n == 0 {
			n = 1
		}
		for k := 0; k < n; k++ {
			if _, variadic := f.Type.(*ast.Ellipsis); !variadic && hxBaseName(f.Type) == "vmContext" && i < len(c.Args) {
				if !x.ownCtx(c.Args[i], 0) {
					txt := hxExprString(x.fset, c.Args[i])
					x.prog.Facts.CtxArgs = append(x.prog.Facts.CtxArgs, [3]string{x.fn.Name, callee, txt})
					out = append(out, x.unknown("context "+txt+" handed to "+callee+" is not this function's own context", c))
				}
			}
			i++
		}
	}
	return hxSeq(out...)
}

// ---------------------------------------------------------------------------------- normalised texts

func hxUnparen(e ast.Expr) ast.Expr {
	for {
		p, ok := e.(*ast.ParenExpr)
		if !ok {
			return e
		}
		e = p.X
	}
}

func hxBoolLit(e ast.Expr) (bool, bool) {
	if id, ok := hxUnparen(e).(*ast.Ident); ok {
		switch id.Name {
		case "true":
			return true, true
		case "false":
			return false, true
		}
	}
	return false, false
}

func hxIsNumLit(e ast.Expr) bool {
	l, ok := hxUnparen(e).(*ast.BasicLit)
	return ok && (l.Kind == token.INT || l.Kind == token.FLOAT)
}

// hxNormText: canonical text of a condition.
func (x *hxExtractor) normText(e ast.Expr) string {
	e = hxUnparen(e)
	if x.isViewRead(e) {
		return "executor.isView" // whatever the receiver is called
	}
	wrap := func(sub ast.Expr) string {
		t := x.normText(sub)
		switch s := hxUnparen(sub).(type) {
		case *ast.BinaryExpr:
			if _, isB := hxBoolLit(s.Y); isB && (s.Op == token.EQL || s.Op == token.NEQ) {
				return t // already reduced to an operand or its negation
			}
			if _, isB := hxBoolLit(s.X); isB && (s.Op == token.EQL || s.Op == token.NEQ) {
				return t
			}
			return "(" + t + ")"
		}
		return t
	}
	switch v := e.(type) {
	case *ast.UnaryExpr:
		if v.Op == token.NOT {
			t := wrap(v.X)
			if strings.HasPrefix(t, "!") && !strings.HasPrefix(t, "!(") {
				return t[1:]
			}
			return "!" + t
		}
	case *ast.BinaryExpr:
		switch v.Op {
		case token.LAND, token.LOR:
			l, r := x.normText(v.X), x.normText(v.Y)
			if lb, ok := hxUnparen(v.X).(*ast.BinaryExpr); ok && v.Op == token.LAND && lb.Op == token.LOR {
				l = "(" + l + ")"
			}
			if rb, ok := hxUnparen(v.Y).(*ast.BinaryExpr); ok && (v.Op == token.LAND && rb.Op == token.LOR || rb.Op == v.Op) {
				r = "(" + r + ")"
			}
			return l + " " + v.Op.String() + " " + r
		case token.EQL, token.NEQ:
			for _, side := range [][2]ast.Expr{{v.X, v.Y}, {v.Y, v.X}} {
				if b, ok := hxBoolLit(side[1]); ok {
					pos := b == (v.Op == token.EQL)
					t := wrap(side[0])
					if pos {
						return x.normText(side[0])
					}
					if strings.HasPrefix(t, "!") && !strings.HasPrefix(t, "!(") {
						return t[1:]
					}
					return "!" + t
				}
			}
			if hxIsNumLit(v.X) && !hxIsNumLit(v.Y) {
				return hxExprString(x.fset, hxUnparen(v.Y)) + " " + v.Op.String() + " " + hxExprString(x.fset, hxUnparen(v.X))
			}
		case token.LSS, token.GTR, token.LEQ, token.GEQ:
			if hxIsNumLit(v.X) && !hxIsNumLit(v.Y) {
				flip := map[token.Token]token.Token{token.LSS: token.GTR, token.GTR: token.LSS, token.LEQ: token.GEQ, token.GEQ: token.LEQ}
				return hxExprString(x.fset, hxUnparen(v.Y)) + " " + flip[v.Op].String() + " " + hxExprString(x.fset, hxUnparen(v.X))
			}
		}
		return hxExprString(x.fset, hxUnparen(v.X)) + " " + v.Op.String() + " " + hxExprString(x.fset, hxUnparen(v.Y))
	}
	return hxExprString(x.fset, e)
}

// hxCondText renders an abstract condition: flags by name, atoms by their normalised text, opaque parts as `?`.
func hxCondText(c *HCond, atoms []string) string {
	switch c.Op {
	case "query", "view":
		return c.Op
	case "any":
		return "?"
	case "atom":
		return "«" + atoms[c.Atom] + "»"
	case "not":
		t := hxCondText(c.A, atoms)
		if c.A.Op == "and" || c.A.Op == "or" {
			t = "(" + t + ")"
		}
		return "!" + t
	case "and", "or":
		op := map[string]string{"and": " && ", "or": " || "}[c.Op]
		l, r := hxCondText(c.A, atoms), hxCondText(c.B, atoms)
		if c.Op == "and" && c.A.Op == "or" {
			l = "(" + l + ")"
		}
		if c.Op == "and" && c.B.Op == "or" || c.B.Op == c.Op {
			r = "(" + r + ")"
		}
		return l + op + r
	}
	return c.Op
}

// ---------------------------------------------------------------------------------- error returns

// hxErrCtor: the expression certainly is a non-nil error value (message for the Lua side / Go error).
func (x *hxExtractor) errCtor(e ast.Expr) bool {
	c, ok := hxUnparen(e).(*ast.CallExpr)
	if !ok {
		return false
	}
	return x.tab.ErrCtors[hxPlain(c.Fun)]
}

// refuses: the return statement hands back an error (last result of type *C.char / error, built by an error
// constructor).
func (x *hxExtractor) refuses(s *ast.ReturnStmt) bool {
	res := x.fd.Type.Results
	if res == nil || len(res.List) == 0 || len(s.Results) == 0 {
		return false
	}
	lt := hxExprString(x.fset, res.List[len(res.List)-1].Type)
	if lt != "*C.char" && lt != "error" {
		return false
	}
	return x.errCtor(s.Results[len(s.Results)-1])
}

// hMustRefuse: every execution of s emits a `refuse` event (mirror of Stmt.emitsAlways in Model.HostApi).
func hMustRefuse(s *HStmt) bool {
	switch s.Op {
	case "sink":
		return s.Sink.Kind == "refuse"
	case "seq":
		for _, e := range s.L {
			if hMustRefuse(e) {
				return true
			}
			if !hStraight(e) {
				return false
			}
		}
		return false
	case "ite":
		return hMustRefuse(s.T) && hMustRefuse(s.E)
	case "scope":
		return hMustRefuse(s.T)
	}
	return false
}

// hStraight: s can only end normally.
func hStraight(s *HStmt) bool {
	switch s.Op {
	case "skip", "sink", "call", "reenter":
		return true
	case "seq":
		for _, e := range s.L {
			if !hStraight(e) {
				return false
			}
		}
		return true
	case "ite":
		return hStraight(s.T) && hStraight(s.E)
	case "scope":
		return true
	}
	return false
}

func hBranchShape(s *HStmt) string {
	if hMustRefuse(s) {
		return "refuse"
	}
	if s.Op == "skip" {
		return "skip"
	}
	if s.Op == "ret" || (s.Op == "seq" && s.L[len(s.L)-1].Op == "ret") {
		return "ret"
	}
	return "code"
}

// ---------------------------------------------------------------------------------- database/sql

// sqlLead: the leading literal text of an SQL / DSN argument, lower-cased ("?" if there is none).
func (x *hxExtractor) sqlLead(e ast.Expr) string {
	e = hxUnparen(e)
	switch v := e.(type) {
	case *ast.BasicLit:
		if v.Kind == token.STRING {
			return strings.ToLower(strings.Trim(v.Value, "\"`"))
		}
	case *ast.BinaryExpr:
		if v.Op == token.ADD {
			return x.sqlLead(v.X)
		}
	case *ast.CallExpr:
		if hxPlain(v.Fun) == "fmt.Sprintf" && len(v.Args) > 0 {
			return x.sqlLead(v.Args[0])
		}
	}
	return "?"
}

// hasLiteralPart: some operand of the `+` chain e is a string literal containing part.
func hxHasLiteralPart(e ast.Expr, part string) bool {
	e = hxUnparen(e)
	switch v := e.(type) {
	case *ast.BasicLit:
		return v.Kind == token.STRING && strings.Contains(v.Value, part)
	case *ast.BinaryExpr:
		if v.Op == token.ADD {
			return hxHasLiteralPart(v.X, part) || hxHasLiteralPart(v.Y, part)
		}
	}
	return false
}

// sqlCall: special classification of database/sql calls; ok=false if the call is none of them.
func (x *hxExtractor) sqlCall(c *ast.CallExpr, recv, m string) (*HStmt, bool) {
	if recv == "sql" && m == "Open" {
		if len(c.Args) != 2 {
			return x.unknown("call of sql.Open with an unexpected argument list", c), true
		}
		drv := hxExprString(x.fset, c.Args[0])
		dsn := hxExprString(x.fset, c.Args[1])
		if hxHasLiteralPart(c.Args[1], "_query_only=true") {
			x.prog.Facts.SQLOpens = append(x.prog.Facts.SQLOpens, [4]string{x.fn.Name, drv, dsn, "query_only"})
			return hxSkip(), true
		}
		x.prog.Facts.SQLOpens = append(x.prog.Facts.SQLOpens, [4]string{x.fn.Name, drv, dsn, "writable"})
		return x.sink("mutQ", "sql.Open (writable connection)", c), true
	}
	if !x.tab.SQLExecMethods[recv+"."+m] {
		return nil, false
	}
	// Exec(sql, …) / ExecContext(ctx, sql, …)
	arg := 0
	if strings.HasSuffix(m, "Context") {
		arg = 1
	}
	lead := "?"
	if arg < len(c.Args) {
		lead = x.sqlLead(c.Args[arg])
	}
	for _, p := range x.tab.SQLPrefixes {
		if strings.HasPrefix(lead, p[0]) {
			x.prog.Facts.SQLExecs = append(x.prog.Facts.SQLExecs, [3]string{x.fn.Name, p[0], p[1]})
			return x.kindStmt(p[1], recv+"."+m+" \""+p[0]+"…\"", c), true
		}
	}
	x.prog.Facts.SQLExecs = append(x.prog.Facts.SQLExecs, [3]string{x.fn.Name, lead, "unclassified"})
	return x.unknown("SQL statement of unknown kind through "+recv+"."+m+": "+lead, c), true
}

// embeddedExternal: the external (not parsed) types embedded in in-package struct type tn, as "pkg.Type".
func (x *hxExtractor) embeddedExternal(tn string, depth int) []string {
	var out []string
	if depth > 2 {
		return nil
	}
	for _, em := range x.pkg.embeds[tn] {
		ep, en, ok := x.typeName(em, "")
		if !ok {
			continue
		}
		if ep == "" {
			out = append(out, x.embeddedExternal(en, depth+1)...)
		} else if x.ext[ep] == nil {
			out = append(out, ep+"."+en)
		}
	}
	return out
}

func (x *hxExtractor) noteRo(name string) {
	i := strings.Index(name, ".")
	if i < 0 || !x.tab.StatePkgs[name[:i]] || name[:i] == "sql" {
		return
	}
	x.prog.Facts.RoCallees = hxAddUnique(x.prog.Facts.RoCallees, name)
}

// ifaceImpls enqueues the implementations of the in-package interface methods the tables classify, so that
// their bodies are extracted and can be compared with the class of the interface method.
func (x *hxExtractor) ifaceImpls() {
	var keys []string
	for k := range x.tab.Calls {
		keys = append(keys, k)
	}
	sort.Strings(keys)
	for _, k := range keys {
		i := strings.Index(k, ".")
		if i < 0 {
			continue
		}
		iface, m := k[:i], k[i+1:]
		if _, ok := x.pkg.ifaces[iface]; !ok {
			continue
		}
		// the types that implement the interface: every method of it resolves (directly or through an embedded
		// in-package type)
		var types []string
		for tn := range x.pkg.structs {
			all := true
			for im := range x.pkg.ifaces[iface] {
				if fd, fp := x.method("", tn, im, 0); fd == nil || fp != "" {
					all = false
					break
				}
			}
			if all && len(x.pkg.ifaces[iface]) > 0 {
				types = append(types, tn)
			}
		}
		sort.Strings(types)
		var impls []string
		for _, tn := range types {
			if fd, _ := x.method("", tn, m, 0); fd != nil {
				impls = hxAddUnique(impls, hxFuncName(fd))
			}
		}
		sort.Strings(impls)
		for _, im := range impls {
			x.prog.Facts.IfaceImpls = append(x.prog.Facts.IfaceImpls, [3]string{k, x.tab.Calls[k], im})
			x.enqueue(im)
		}
	}
}

// ---------------------------------------------------------------------------------- C guards (hostapi_c.go)

// HCGuard: one guard call in front of the SQL execution of a registered Lua function: the comparison its `if`
// makes and whether the guarded statement raises a Lua error.
type HCGuard struct {
	Call  string // luaCheckView | sqlcheck_is_readonly_sql | sqlite3_stmt_readonly
	Cmp   string // gt ge ne truthy other
	K     int
	Raise bool
	Text  string // the condition, white space collapsed (display only)
}

var hcRaising = map[string]bool{"luaL_error": true, "lua_error": true, "luaL_throwerror": true, "luaL_argerror": true}

func hcMatchParen(s string, open int) int {
	d := 0
	for i := open; i < len(s); i++ {
		switch s[i] {
		case '(':
			d++
		case ')':
			d--
			if d == 0 {
				return i
			}
		}
	}
	return -1
}

// hcGuardAt analyses the guard call whose name starts at body[pos:].
func hcGuardAt(body string, pos int, name string) HCGuard {
	g := HCGuard{Call: name, Cmp: "other"}
	// innermost `if (` … `)` that contains pos
	best, bestClose := -1, -1
	for _, m := range hcIfRe.FindAllStringIndex(body, -1) {
		open := m[1] - 1
		cl := hcMatchParen(body, open)
		if cl < 0 {
			continue
		}
		if open < pos && pos < cl && open > best {
			best, bestClose = open, cl
		}
	}
	if best < 0 {
		g.Text = "(no enclosing if)"
		return g
	}
	cond := strings.Join(strings.Fields(body[best+1:bestClose]), " ")
	g.Text = cond
	// condition must be exactly  name(args) [op k]
	if strings.HasPrefix(cond, name) {
		rest := strings.TrimSpace(cond[len(name):])
		if strings.HasPrefix(rest, "(") {
			if cl := hcMatchParen(rest, 0); cl >= 0 {
				tail := strings.TrimSpace(rest[cl+1:])
				switch {
				case tail == "":
					g.Cmp = "truthy"
				default:
					for _, op := range [][2]string{{">=", "ge"}, {"!=", "ne"}, {">", "gt"}} {
						if strings.HasPrefix(tail, op[0]) {
							num := strings.TrimSpace(tail[len(op[0]):])
							k, ok := 0, num != ""
							for _, ch := range num {
								if ch < '0' || ch > '9' {
									ok = false
									break
								}
								k = k*10 + int(ch-'0')
							}
							if ok {
								g.Cmp, g.K = op[1], k
							}
							break
						}
					}
				}
			}
		}
	}
	// the guarded statement: a block or a single statement; it raises if its first call is a raising one
	rest := body[bestClose+1:]
	i := 0
	for i < len(rest) && (rest[i] == ' ' || rest[i] == '\t' || rest[i] == '\n' || rest[i] == '\r') {
		i++
	}
	stmt := ""
	if i < len(rest) && rest[i] == '{' {
		d, j := 0, i
		for ; j < len(rest); j++ {
			if rest[j] == '{' {
				d++
			} else if rest[j] == '}' {
				d--
				if d == 0 {
					break
				}
			}
		}
		if j < len(rest) {
			stmt = rest[i+1 : j]
		}
	} else if j := strings.Index(rest[i:], ";"); j >= 0 {
		stmt = rest[i : i+j+1]
	}
	if m := hcCallRe.FindStringSubmatch(strings.TrimSpace(stmt)); m != nil && strings.HasPrefix(strings.TrimSpace(stmt), m[1]) {
		g.Raise = hcRaising[m[1]]
	}
	return g
}

// checkViewRet: what luaCheckView hands to the C guards — "nestedView" if every return is a plain conversion of
// the own context's counter, otherwise the text of the returned expression.
func (x *hxExtractor) checkViewRet(fd *ast.FuncDecl) {
	ast.Inspect(fd.Body, func(n ast.Node) bool {
		r, ok := n.(*ast.ReturnStmt)
		if !ok {
			return true
		}
		txt := "?"
		if len(r.Results) == 1 {
			e := hxUnparen(r.Results[0])
			txt = hxExprString(x.fset, e)
			if c, ok := e.(*ast.CallExpr); ok && len(c.Args) == 1 {
				switch hxPlain(c.Fun) {
				case "C.int", "int", "int32", "C.int32_t":
					e = hxUnparen(c.Args[0])
				}
			}
			if s, ok := e.(*ast.SelectorExpr); ok && s.Sel.Name == "nestedView" && x.ownCtx(s.X, 0) {
				txt = "nestedView"
			}
		}
		x.prog.Facts.CheckViewRet = hxAddUnique(x.prog.Facts.CheckViewRet, txt)
		return true
	})
}

var hcAssignRe = regexp.MustCompile(`([A-Za-z_]\w*)\s*=\s*$`)

// hcBlockAfter: the statement or block that follows position i (after white space): its text.
func hcBlockAfter(rest string) string {
	i := 0
	for i < len(rest) && (rest[i] == ' ' || rest[i] == '\t' || rest[i] == '\n' || rest[i] == '\r') {
		i++
	}
	if i < len(rest) && rest[i] == '{' {
		d := 0
		for j := i; j < len(rest); j++ {
			if rest[j] == '{' {
				d++
			} else if rest[j] == '}' {
				d--
				if d == 0 {
					return rest[i+1 : j]
				}
			}
		}
		return ""
	}
	if j := strings.Index(rest[i:], ";"); j >= 0 {
		return rest[i : i+j+1]
	}
	return ""
}

func hcRaises(block string) bool {
	for _, m := range hcCallRe.FindAllStringSubmatch(block, -1) {
		if hcRaising[m[1]] {
			return true
		}
	}
	return false
}

// hcErrChecks: for every call of the Go callback cb in C function f, how the C code tests the returned error value
// (`r` stands for the variable that receives it, `call` for the call itself) and whether the guarded statement
// raises a Lua error.
func hcErrChecks(f *HCFunc, cb string) [][4]string {
	var out [][4]string
	re := regexp.MustCompile(`\b` + regexp.QuoteMeta(cb) + `\s*\(`)
	for _, m := range re.FindAllStringIndex(f.Body, -1) {
		open := m[1] - 1
		cl := hcMatchParen(f.Body, open)
		if cl < 0 {
			continue
		}
		v := ""
		if am := hcAssignRe.FindStringSubmatch(f.Body[:m[0]]); am != nil {
			v = am[1]
		}
		row := [4]string{cb, f.Name, "unchecked", "noraise"}
		// (a) the call sits inside the condition of an if
		best, bestClose := -1, -1
		for _, im := range hcIfRe.FindAllStringIndex(f.Body, -1) {
			io := im[1] - 1
			ic := hcMatchParen(f.Body, io)
			if ic >= 0 && io < m[0] && cl < ic && io > best {
				best, bestClose = io, ic
			}
		}
		norm := func(cond string) string {
			cond = strings.ReplaceAll(cond, f.Body[m[0]:cl+1], "call")
			cond = strings.Join(strings.Fields(cond), " ")
			if v != "" {
				cond = regexp.MustCompile(`\b`+regexp.QuoteMeta(v)+`\b`).ReplaceAllString(cond, "r")
			}
			return cond
		}
		if best >= 0 {
			row[2] = norm(f.Body[best+1 : bestClose])
			if hcRaises(hcBlockAfter(f.Body[bestClose+1:])) {
				row[3] = "raise"
			}
		} else if v != "" {
			// (b) the first later `if` whose condition mentions the variable
			vre := regexp.MustCompile(`\b` + regexp.QuoteMeta(v) + `\b`)
			for _, im := range hcIfRe.FindAllStringIndex(f.Body[cl:], -1) {
				io := cl + im[1] - 1
				ic := hcMatchParen(f.Body, io)
				if ic < 0 || !vre.MatchString(f.Body[io+1:ic]) {
					continue
				}
				row[2] = norm(f.Body[io+1 : ic])
				if hcRaises(hcBlockAfter(f.Body[ic+1:])) {
					row[3] = "raise"
				}
				break
			}
		}
		out = append(out, row)
	}
	return out
}

// ---------------------------------------------------------------------------------- sqlcheck.c (round 3b)

var hcKwCmpRe = regexp.MustCompile(`str(n?)cmp\s*\(\s*keyword\s*,\s*"([^"]*)"\s*(?:,\s*(\d+)\s*)?\)\s*==\s*0`)
var hcReturnRe = regexp.MustCompile(`\breturn\s+([^;]+);`)

type hcIf struct{ condOpen, condClose, blockStart, blockEnd int }

func hcIfs(body string) []hcIf {
	var out []hcIf
	for _, m := range hcIfRe.FindAllStringIndex(body, -1) {
		open := m[1] - 1
		cl := hcMatchParen(body, open)
		if cl < 0 {
			continue
		}
		i := cl + 1
		for i < len(body) && (body[i] == ' ' || body[i] == '\t' || body[i] == '\n' || body[i] == '\r') {
			i++
		}
		end := i
		if i < len(body) && body[i] == '{' {
			d := 0
			for j := i; j < len(body); j++ {
				if body[j] == '{' {
					d++
				} else if body[j] == '}' {
					d--
					if d == 0 {
						end = j
						break
					}
				}
			}
		} else if j := strings.Index(body[i:], ";"); j >= 0 {
			end = i + j
		}
		out = append(out, hcIf{open, cl, i, end})
	}
	return out
}

// hcKeywordRules: for every `return <non-zero>` of the body, the keyword comparisons of the innermost enclosing `if`
// (rows (keyword, prefix|exact)); (PRAGMA, pragma) when the condition is the call of the pragma helper `delegate`;
// anything else as ("…text…", "unrecognised").  enclosing: the keyword an outer `if` must compare with ("" = none).
func hcKeywordRules(body, delegate, enclosing string) [][2]string {
	var out [][2]string
	ifs := hcIfs(body)
	for _, r := range hcReturnRe.FindAllStringSubmatchIndex(body, -1) {
		val := strings.TrimSpace(body[r[2]:r[3]])
		if val == "0" || val == "-1" {
			continue
		}
		var encl []hcIf // enclosing ifs, innermost first
		for _, f := range ifs {
			if f.blockStart <= r[0] && r[0] <= f.blockEnd {
				encl = append(encl, f)
			}
		}
		sort.Slice(encl, func(i, j int) bool { return encl[i].blockStart > encl[j].blockStart })
		if len(encl) == 0 {
			out = append(out, [2]string{"return " + val, "unrecognised"})
			continue
		}
		cond := strings.Join(strings.Fields(body[encl[0].condOpen+1:encl[0].condClose]), " ")
		if delegate != "" && strings.Contains(cond, delegate+"(") && val != "1" {
			out = append(out, [2]string{"PRAGMA", "pragma"})
			continue
		}
		if enclosing != "" {
			ok := false
			for _, f := range encl[1:] {
				for _, m := range hcKwCmpRe.FindAllStringSubmatch(body[f.condOpen+1:f.condClose], -1) {
					if strings.HasPrefix(m[2], enclosing) {
						ok = true
					}
				}
			}
			if !ok {
				out = append(out, [2]string{cond, "unrecognised"})
				continue
			}
		}
		ms := hcKwCmpRe.FindAllStringSubmatchIndex(cond, -1)
		rest := cond
		var rows [][2]string
		for i := len(ms) - 1; i >= 0; i-- {
			m := ms[i]
			kw, mode := cond[m[4]:m[5]], "exact"
			if m[2] < m[3] && cond[m[2]:m[3]] == "n" {
				mode = "prefix"
				if m[6] >= 0 {
					n := 0
					for _, ch := range cond[m[6]:m[7]] {
						n = n*10 + int(ch-'0')
					}
					if n < len(kw) {
						kw = kw[:n]
					}
				}
			}
			rows = append([][2]string{{kw, mode}}, rows...)
			rest = rest[:m[0]] + rest[m[1]:]
		}
		rest = strings.NewReplacer("||", "", "(", "", ")", "", " ", "").Replace(rest)
		if val != "1" || len(rows) == 0 || rest != "" {
			out = append(out, [2]string{cond + " => return " + val, "unrecognised"})
			continue
		}
		out = append(out, rows...)
	}
	return out
}

func hcSQLCheckRules(fns []*HCFunc) (first, pragmas [][2]string) {
	for _, f := range fns {
		switch f.Name {
		case "sqlcheck_is_readonly_sql":
			first = hcKeywordRules(f.Body, "sqlcheck_is_permitted_pragma", "")
		case "sqlcheck_is_permitted_pragma":
			pragmas = hcKeywordRules(f.Body, "", "PRAGMA")
		}
	}
	if first == nil {
		first = [][2]string{{"sqlcheck_is_readonly_sql not found", "unrecognised"}}
	}
	return
}

// ---------------------------------------------------------------------------------- context slots (round 3c)

// Every host-API guard reads the flags of contexts[service], where `service` is the slot number stored in the Lua
// state.  Slots BlockFactory / ChainService hold the context of the transaction being executed (Call / Create
// store it there without looking); a query gets its slot from allocContextSlot.  "A read-only context is identified
// by its own slot" therefore rests on the slot arithmetic of allocContextSlot never producing a reserved slot.
// HSlotFacts: that arithmetic translated (Lean text + an evaluator for the harness), the VM-service constants, the
// initial value of lastQueryIndex, every write of contexts[…] and of vmContext.service.
type HSlotFacts struct {
	Consts     [][2]string // (name, value) of the const group of BlockFactory / ChainService / MaxVmService
	StepLean   string      // Lean expression over `maxContext index` for one step of the slot scan ("" = not translatable)
	StepSrc    string      // the Go statements it was translated from (one line)
	StepWhy    string      // why it could not be translated
	InitLean   string      // initial value of lastQueryIndex
	SlotWrites [][3]string // (function, index expression, value) of every assignment to contexts[…] / contexts
	SvcWrites  [][2]string // (function, value) of every assignment to vmContext.service (incl. composite literals)
	LastWrites [][2]string // (function, value) of every assignment to lastQueryIndex outside init()
	step       []ast.Stmt
	fset       *token.FileSet
	constVals  map[string]int64
}

func hxSlotFacts(x *hxExtractor, dir string) *HSlotFacts {
	sf := &HSlotFacts{fset: x.fset, constVals: map[string]int64{}}
	// constants: the const group that declares ChainService (contract.go; parsed here, it is not an analysed file)
	if af, err := parser.ParseFile(token.NewFileSet(), filepath.Join(dir, "contract.go"), nil, parser.SkipObjectResolution); err == nil {
		for _, d := range af.Decls {
			gd, ok := d.(*ast.GenDecl)
			if !ok || gd.Tok != token.CONST {
				continue
			}
			has := false
			for _, sp := range gd.Specs {
				for _, n := range sp.(*ast.ValueSpec).Names {
					if n.Name == "ChainService" {
						has = true
					}
				}
			}
			if !has {
				continue
			}
			iotaForm := false
			for i, sp := range gd.Specs {
				vs := sp.(*ast.ValueSpec)
				val := int64(-1)
				switch {
				case len(vs.Values) == 1 && hxExprString(x.fset, vs.Values[0]) == "iota":
					iotaForm = true
					val = int64(i)
				case len(vs.Values) == 0 && iotaForm:
					val = int64(i)
				case len(vs.Values) == 1:
					if l, ok := vs.Values[0].(*ast.BasicLit); ok {
						val, _ = strconv.ParseInt(l.Value, 0, 64)
					}
					iotaForm = false
				}
				for _, n := range vs.Names {
					sf.Consts = append(sf.Consts, [2]string{n.Name, fmt.Sprint(val)})
					sf.constVals[n.Name] = val
				}
			}
		}
	}
	// init() functions (several per package; the function table keeps one): the initial value of lastQueryIndex
	for _, fn := range x.prog.Facts.ParsedFiles {
		af, err := parser.ParseFile(token.NewFileSet(), filepath.Join(dir, fn), nil, parser.SkipObjectResolution)
		if err != nil {
			continue
		}
		for _, d := range af.Decls {
			fd, ok := d.(*ast.FuncDecl)
			if !ok || fd.Recv != nil || fd.Name.Name != "init" || fd.Body == nil {
				continue
			}
			ast.Inspect(fd.Body, func(nd ast.Node) bool {
				if as, ok := nd.(*ast.AssignStmt); ok && len(as.Lhs) == 1 && len(as.Rhs) == 1 {
					if id, ok := as.Lhs[0].(*ast.Ident); ok && id.Name == "lastQueryIndex" {
						sf.InitLean, _ = sf.lean(as.Rhs[0])
					}
				}
				return true
			})
		}
	}
	var names []string
	for n := range x.pkg.funcs {
		names = append(names, n)
	}
	sort.Strings(names)
	for _, n := range names {
		fd := x.pkg.funcs[n]
		if fd.Body == nil {
			continue
		}
		ast.Inspect(fd.Body, func(nd ast.Node) bool {
			switch s := nd.(type) {
			case *ast.AssignStmt:
				for i, l := range s.Lhs {
					rhs := "?"
					if len(s.Lhs) == len(s.Rhs) {
						rhs = hxExprString(x.fset, s.Rhs[i])
					}
					switch t := l.(type) {
					case *ast.IndexExpr:
						if id, ok := t.X.(*ast.Ident); ok && id.Name == "contexts" {
							sf.SlotWrites = append(sf.SlotWrites, [3]string{n, hxExprString(x.fset, t.Index), rhs})
						}
					case *ast.Ident:
						if t.Name == "contexts" {
							sf.SlotWrites = append(sf.SlotWrites, [3]string{n, "*", rhs})
						}
						if t.Name == "lastQueryIndex" && n != "init" {
							sf.LastWrites = append(sf.LastWrites, [2]string{n, rhs})
						}
					case *ast.SelectorExpr:
						if t.Sel.Name == "service" {
							sf.SvcWrites = append(sf.SvcWrites, [2]string{n, rhs})
						}
					}
				}
			case *ast.CompositeLit:
				if hxBaseName(s.Type) == "vmContext" {
					for _, el := range s.Elts {
						if kv, ok := el.(*ast.KeyValueExpr); ok {
							if id, ok := kv.Key.(*ast.Ident); ok && id.Name == "service" {
								sf.SvcWrites = append(sf.SvcWrites, [2]string{n, hxExprString(x.fset, kv.Value)})
							}
						}
					}
				}
			}
			return true
		})
	}
	// the step of the slot scan: in allocContextSlot, the statements of the `for` body in front of the first test of contexts[…]
	fd := x.pkg.funcs["allocContextSlot"]
	if fd == nil || fd.Body == nil {
		sf.StepWhy = "allocContextSlot not found"
		return sf
	}
	var loop *ast.ForStmt
	for _, st := range fd.Body.List {
		if f, ok := st.(*ast.ForStmt); ok {
			loop = f
			break
		}
	}
	if loop == nil || loop.Init != nil || loop.Cond != nil || loop.Post != nil {
		sf.StepWhy = "allocContextSlot has no plain `for { … }` scan"
		return sf
	}
	for _, st := range loop.Body.List {
		if is, ok := st.(*ast.IfStmt); ok && strings.Contains(hxExprString(x.fset, is.Cond), "contexts[") {
			break
		}
		sf.step = append(sf.step, st)
	}
	var src []string
	for _, st := range sf.step {
		src = append(src, hxExprString(x.fset, st))
	}
	sf.StepSrc = strings.Join(src, "; ")
	val, why := sf.leanBlock(sf.step)
	if why != "" {
		sf.StepWhy = why
		return sf
	}
	sf.StepLean = val
	return sf
}

// lean: integer / boolean expression over index, maxContext, the service constants and literals.
func (sf *HSlotFacts) lean(e ast.Expr) (string, string) {
	switch v := e.(type) {
	case *ast.ParenExpr:
		return sf.lean(v.X)
	case *ast.BasicLit:
		if v.Kind == token.INT {
			return v.Value, ""
		}
	case *ast.Ident:
		if v.Name == "index" || v.Name == "maxContext" {
			return v.Name, ""
		}
		if _, ok := sf.constVals[v.Name]; ok {
			return v.Name, ""
		}
		if v.Name == "startIndex" || v.Name == "lastQueryIndex" {
			return "", "the step depends on " + v.Name
		}
	case *ast.CallExpr:
		if len(v.Args) == 1 {
			switch hxPlain(v.Fun) {
			case "int", "C.int", "int32", "int64":
				return sf.lean(v.Args[0])
			}
		}
	case *ast.UnaryExpr:
		a, why := sf.lean(v.X)
		if why != "" {
			return "", why
		}
		switch v.Op {
		case token.NOT:
			return "(!" + a + ")", ""
		case token.SUB:
			return "(-" + a + ")", ""
		}
	case *ast.BinaryExpr:
		a, why := sf.lean(v.X)
		if why != "" {
			return "", why
		}
		b, why := sf.lean(v.Y)
		if why != "" {
			return "", why
		}
		switch v.Op {
		case token.ADD, token.SUB, token.MUL:
			return "(" + a + " " + v.Op.String() + " " + b + ")", ""
		case token.QUO:
			return "(Int.tdiv " + a + " " + b + ")", ""
		case token.REM:
			return "(Int.tmod " + a + " " + b + ")", ""
		case token.EQL:
			return "(" + a + " = " + b + ")", ""
		case token.NEQ:
			return "(" + a + " ≠ " + b + ")", ""
		case token.LSS, token.GTR:
			return "(" + a + " " + v.Op.String() + " " + b + ")", ""
		case token.LEQ:
			return "(" + a + " ≤ " + b + ")", ""
		case token.GEQ:
			return "(" + a + " ≥ " + b + ")", ""
		case token.LAND:
			return "(" + a + " ∧ " + b + ")", ""
		case token.LOR:
			return "(" + a + " ∨ " + b + ")", ""
		}
	}
	return "", "expression outside the subset: " + hxExprString(sf.fset, e)
}

// leanBlock: the value of `index` after the statements (which may assign only `index`).
func (sf *HSlotFacts) leanBlock(l []ast.Stmt) (string, string) {
	if len(l) == 0 {
		return "index", ""
	}
	rest, why := sf.leanBlock(l[1:])
	if why != "" {
		return "", why
	}
	bind := func(e string) string {
		if rest == "index" {
			return e
		}
		return "(let index := " + e + "; " + rest + ")"
	}
	switch s := l[0].(type) {
	case *ast.IncDecStmt:
		if id, ok := s.X.(*ast.Ident); ok && id.Name == "index" {
			if s.Tok == token.INC {
				return bind("(index + 1)"), ""
			}
			return bind("(index - 1)"), ""
		}
	case *ast.AssignStmt:
		if len(s.Lhs) == 1 && len(s.Rhs) == 1 {
			if id, ok := s.Lhs[0].(*ast.Ident); ok && id.Name == "index" {
				e, why := sf.lean(s.Rhs[0])
				if why != "" {
					return "", why
				}
				switch s.Tok {
				case token.ASSIGN:
					return bind(e), ""
				case token.ADD_ASSIGN:
					return bind("(index + " + e + ")"), ""
				case token.SUB_ASSIGN:
					return bind("(index - " + e + ")"), ""
				case token.REM_ASSIGN:
					return bind("(Int.tmod index " + e + ")"), ""
				}
			}
		}
	case *ast.IfStmt:
		if s.Init == nil {
			c, why := sf.lean(s.Cond)
			if why != "" {
				return "", why
			}
			t, why := sf.leanBlock(s.Body.List)
			if why != "" {
				return "", why
			}
			e := "index"
			switch el := s.Else.(type) {
			case *ast.BlockStmt:
				if e, why = sf.leanBlock(el.List); why != "" {
					return "", why
				}
			case *ast.IfStmt:
				if e, why = sf.leanBlock([]ast.Stmt{el}); why != "" {
					return "", why
				}
			}
			return bind("(if " + c + " then " + t + " else " + e + ")"), ""
		}
	case *ast.EmptyStmt:
		return rest, ""
	}
	return "", "statement outside the subset: " + hxExprString(sf.fset, l[0])
}

// Eval: one step of the scan on concrete numbers (Go semantics), for the harness; ok=false if not evaluable.
func (sf *HSlotFacts) Eval(maxContext, index int64) (int64, bool) {
	if sf.StepLean == "" {
		return 0, false
	}
	env := map[string]int64{"index": index, "maxContext": maxContext}
	for k, v := range sf.constVals {
		env[k] = v
	}
	ok := sf.exec(sf.step, env)
	return env["index"], ok
}

func (sf *HSlotFacts) exec(l []ast.Stmt, env map[string]int64) bool {
	for _, st := range l {
		switch s := st.(type) {
		case *ast.IncDecStmt:
			if s.Tok == token.INC {
				env["index"]++
			} else {
				env["index"]--
			}
		case *ast.AssignStmt:
			v, ok := sf.eval(s.Rhs[0], env)
			if !ok {
				return false
			}
			switch s.Tok {
			case token.ASSIGN:
				env["index"] = v
			case token.ADD_ASSIGN:
				env["index"] += v
			case token.SUB_ASSIGN:
				env["index"] -= v
			case token.REM_ASSIGN:
				if v == 0 {
					return false
				}
				env["index"] %= v
			}
		case *ast.IfStmt:
			c, ok := sf.eval(s.Cond, env)
			if !ok {
				return false
			}
			if c != 0 {
				if !sf.exec(s.Body.List, env) {
					return false
				}
			} else if s.Else != nil {
				var el []ast.Stmt
				switch e := s.Else.(type) {
				case *ast.BlockStmt:
					el = e.List
				case *ast.IfStmt:
					el = []ast.Stmt{e}
				}
				if !sf.exec(el, env) {
					return false
				}
			}
		}
	}
	return true
}

func (sf *HSlotFacts) eval(e ast.Expr, env map[string]int64) (int64, bool) {
	b2i := func(b bool) int64 {
		if b {
			return 1
		}
		return 0
	}
	switch v := e.(type) {
	case *ast.ParenExpr:
		return sf.eval(v.X, env)
	case *ast.BasicLit:
		n, err := strconv.ParseInt(v.Value, 0, 64)
		return n, err == nil
	case *ast.Ident:
		n, ok := env[v.Name]
		return n, ok
	case *ast.CallExpr:
		if len(v.Args) == 1 {
			return sf.eval(v.Args[0], env)
		}
	case *ast.UnaryExpr:
		a, ok := sf.eval(v.X, env)
		if !ok {
			return 0, false
		}
		if v.Op == token.NOT {
			return b2i(a == 0), true
		}
		return -a, true
	case *ast.BinaryExpr:
		a, ok := sf.eval(v.X, env)
		if !ok {
			return 0, false
		}
		b, ok := sf.eval(v.Y, env)
		if !ok {
			return 0, false
		}
		switch v.Op {
		case token.ADD:
			return a + b, true
		case token.SUB:
			return a - b, true
		case token.MUL:
			return a * b, true
		case token.QUO:
			if b == 0 {
				return 0, false
			}
			return a / b, true
		case token.REM:
			if b == 0 {
				return 0, false
			}
			return a % b, true
		case token.EQL:
			return b2i(a == b), true
		case token.NEQ:
			return b2i(a != b), true
		case token.LSS:
			return b2i(a < b), true
		case token.GTR:
			return b2i(a > b), true
		case token.LEQ:
			return b2i(a <= b), true
		case token.GEQ:
			return b2i(a >= b), true
		case token.LAND:
			return b2i(a != 0 && b != 0), true
		case token.LOR:
			return b2i(a != 0 || b != 0), true
		}
	}
	return 0, false
}
