package main

// Host-API IR extractor (C20).  Self-contained (standard library only, no reference to the rest
// of goext): the same file is linked into harness/c20 so that the check's witness search works on
// exactly the extraction the Lean side is generated from.
//
// Input: Go files of package contract (vm_callback.go, vm.go, vm_state.go; go/parser needs no cgo).
// Output: for every entry point (each `//export`ed function, plus the Go-level read-only entry
// points Query / CheckFeeDelegation) and every in-package function it can call, a term of
//
//	Stmt = skip | seq | ite c t e | ret | brk | cont | sink s | call f | loop b | scope b | reenter
//	Cond = query | view | atom i | any | not c | and a b | or a b
//
// `query` is a test of vmContext.isQuery, `view` a test of vmContext.nestedView > 0; the read-only
// guard `if ctx.isQuery == true || ctx.nestedView > 0 { return … }` is therefore
// `ite (or query view) ret skip`, and a guard conjoined with another condition
// (`(…) && amountBig.Cmp(zeroBig) > 0`) is `ite (and (or query view) (atom i)) ret skip`.
// `atom i` is a condition over single-assignment locals (stable during one invocation), everything
// else is `any` (either branch may be taken).  `sink` is a call or field write classified by the
// reviewed tables in hostapi_tables.go; anything that touches a state-bearing package/receiver/field
// and is in no table becomes `sink mut "unknown:…"`, so that a new mutator cannot pass unnamed.
// `reenter` marks C calls that run Lua code (which may call any exported callback again).
// Deferred calls and function literals are `loop (scope body)` at the place they are created (they
// run zero or more times later; for "is a sink ever emitted" the position does not matter because
// the read-only flags are constant during an invocation).

import (
	"bytes"
	"fmt"
	"go/ast"
	"go/parser"
	"go/printer"
	"go/token"
	"os"
	"path/filepath"
	"sort"
	"strings"
)

// ---------------------------------------------------------------------------------- IR

type HCond struct {
	Op   string // query view atom any not and or
	Atom int
	A, B *HCond
}

type HSink struct {
	Kind string // mut mutQ restore txctl cache viewInc viewDec refuse exempt viewSet
	Name string
	Pos  string
}

type HStmt struct {
	Op   string // skip seq ite ret brk cont sink call loop scope reenter
	C    *HCond
	L    []*HStmt // seq
	T, E *HStmt   // ite branches; T = body of loop/scope
	Sink *HSink
	Fn   string // call
	Pos  string
}

type HLit struct {
	Atom int
	Pos  bool
}

type HFunc struct {
	Name       string
	File       string
	Line       int
	Exported   bool // //export
	QueryEntry bool // Go-level read-only entry point (Query, CheckFeeDelegation)
	Body       *HStmt
	Atoms      []string // atom id -> condition text
	Assume     [][]HLit // clauses (disjunctions) the local valuation is assumed to satisfy
	AssumeWhy  []string
}

// HFacts: inventories that are emitted as generated facts.
type HFacts struct {
	ViewWrites   [][2]string // (function, "inc"|"dec"|"assign")
	QueryWrites  [][2]string // (function, position) of assignments to .isQuery
	QueryCtxLits [][2]string // (function, expr text) composite literals vmContext{isQuery: …}
	GuardWhen    [][2]string // (function, extra condition text) of guards conjoined with another condition
	QueryOnly    [][2]string // (function, condition text) of branches that test isQuery alone
	ViewOnly     [][2]string
	Reenter      [][2]string // (function, C function)
	OtherExports [][2]string // (file, name): //export functions in files that are not analysed
	Unknown      [][3]string // (function, what, position)
	CallersOf    map[string][]string
	ParsedFiles  []string
	Unsupported  [][3]string
	// round 3 (deepening)
	FlagForeign  [][2]string // (function, expression): a test of isQuery / nestedView on something that is not the function's own context
	CtxArgs      [][3]string // (function, callee or "executor{ctx}", argument): a *vmContext handed on that is not the function's own context
	IsViewWrites [][2]string // (function, normalised right-hand side) of every assignment to executor.isView
	SQLOpens     [][4]string // (function, driver, DSN text, class) of every database/sql Open
	SQLExecs     [][3]string // (function, leading SQL text, class) of every Exec / ExecContext through database/sql
	RoCallees    []string    // functions / methods of the state-bearing packages that the tables class as reads and the analysed code calls
	IfaceImpls   [][3]string // (interface.method, class in the tables, implementation) for in-package interfaces classified by the tables
	RefuseGuards [][2]string // (function, condition): flag-dependent branches whose taken arm returns an error
	FlagBranches [][3]string // (function, condition, shape) of every branch whose condition tests a read-only flag
	CheckViewRet []string    // what luaCheckView returns, normalised ("nestedView" if it is the own context's counter)
	// round 3c: the context slots
	Slot *HSlotFacts
}

type HProgram struct {
	Funcs []*HFunc // entries first (source order), then helpers in order of discovery
	Facts HFacts
}

func (p *HProgram) Func(name string) *HFunc {
	for _, f := range p.Funcs {
		if f.Name == name {
			return f
		}
	}
	return nil
}

// ---------------------------------------------------------------------------------- tables

// HTables are the reviewed classification tables (instance for /repo: hostapi_tables.go).
type HTables struct {
	// "pkg.Func", "Func" (in-package, defined outside the analysed files) or "Type.Method" -> kind
	// kinds: mut mutQ restore txctl cache ro
	Calls map[string]string
	// method names on receivers whose type could not be inferred -> kind
	MethodNames map[string]string
	// packages all of whose functions/methods are harmless for chain state
	BenignPkgs map[string]bool
	// packages that hold chain state: every function/method must be classified in Calls
	StatePkgs map[string]bool
	// method names that are harmless on receivers of benign or unknown type
	BenignMethods map[string]bool
	// vmContext / struct fields: writes are sinks of the given kind ("view" = nestedView counter, "query" = isQuery)
	FieldSinks map[string]string
	// fields and package-level variables whose writes are bookkeeping
	BenignFields  map[string]bool
	BenignGlobals map[string]bool
	// functions whose own sinks are state *restoring* (kind overridden to restore)
	RestoreFns map[string]bool
	// C functions that run Lua code
	ReenterC map[string]bool
	// Go-level read-only entry points
	QueryEntries map[string]bool
	// assumptions on condition atoms
	Assume []HAssume
	// round 3
	CtxBuilders    map[string]bool     // in-package constructors of a vmContext
	ErrCtors       map[string]bool     // calls that build a non-nil error value / message ("C.CString", "errors.New", …)
	SQLExecMethods map[string]bool     // "pkg.Type.Method" of database/sql that execute an SQL text
	SQLPrefixes    [][2]string         // (leading SQL text, lower case; kind), first match wins
	RefuseExempt   map[string]string   // functions whose behaviour depends on a read-only flag without returning an error -> why that is accepted
	TypedBenign    map[string]bool     // "Type.field": bookkeeping fields, valid only on receivers of that (in-package) type
	ExtResults     map[string][]string // result types of functions / methods of packages that are not parsed ("sql.Open" -> ["*sql.DB", "error"])
}

type HAssume struct {
	Fn    string
	AnyOf []string // condition texts; at least one holds
	Why   string
}

// ---------------------------------------------------------------------------------- package info

type hxPkg struct {
	name    string
	funcs   map[string]*ast.FuncDecl            // "F" or "T.M"
	structs map[string]map[string]ast.Expr      // type -> field -> type expr
	embeds  map[string][]ast.Expr               // type -> embedded field types
	ifaces  map[string]map[string]*ast.FuncType // interface type -> method -> sig
	types   map[string]ast.Expr                 // named types
	vars    map[string]ast.Expr                 // package-level var -> type expr (nil if unknown)
	files   map[*ast.FuncDecl]string
}

func newHxPkg(name string) *hxPkg {
	return &hxPkg{name: name, funcs: map[string]*ast.FuncDecl{}, structs: map[string]map[string]ast.Expr{}, embeds: map[string][]ast.Expr{},
		ifaces: map[string]map[string]*ast.FuncType{}, types: map[string]ast.Expr{}, vars: map[string]ast.Expr{}, files: map[*ast.FuncDecl]string{}}
}

func hxRecvName(fd *ast.FuncDecl) string {
	if fd.Recv == nil || len(fd.Recv.List) == 0 {
		return ""
	}
	t := fd.Recv.List[0].Type
	for {
		switch x := t.(type) {
		case *ast.StarExpr:
			t = x.X
			continue
		case *ast.ParenExpr:
			t = x.X
			continue
		case *ast.Ident:
			return x.Name
		case *ast.IndexExpr:
			t = x.X
			continue
		}
		return "?"
	}
}

func hxFuncName(fd *ast.FuncDecl) string {
	if r := hxRecvName(fd); r != "" {
		return r + "." + fd.Name.Name
	}
	return fd.Name.Name
}

func (p *hxPkg) addFile(af *ast.File, path string) {
	for _, d := range af.Decls {
		switch d := d.(type) {
		case *ast.FuncDecl:
			p.funcs[hxFuncName(d)] = d
			p.files[d] = path
		case *ast.GenDecl:
			for _, s := range d.Specs {
				switch s := s.(type) {
				case *ast.TypeSpec:
					p.types[s.Name.Name] = s.Type
					switch t := s.Type.(type) {
					case *ast.StructType:
						m := map[string]ast.Expr{}
						for _, f := range t.Fields.List {
							if len(f.Names) == 0 {
								p.embeds[s.Name.Name] = append(p.embeds[s.Name.Name], f.Type)
								m[hxBaseName(f.Type)] = f.Type
							}
							for _, n := range f.Names {
								m[n.Name] = f.Type
							}
						}
						p.structs[s.Name.Name] = m
					case *ast.InterfaceType:
						m := map[string]*ast.FuncType{}
						for _, f := range t.Methods.List {
							if ft, ok := f.Type.(*ast.FuncType); ok {
								for _, n := range f.Names {
									m[n.Name] = ft
								}
							}
						}
						p.ifaces[s.Name.Name] = m
					}
				case *ast.ValueSpec:
					if d.Tok != token.VAR {
						continue
					}
					for i, n := range s.Names {
						var t ast.Expr = s.Type
						if t == nil && i < len(s.Values) {
							t = hxLitType(s.Values[i])
						}
						p.vars[n.Name] = t
					}
				}
			}
		}
	}
}

func hxLitType(e ast.Expr) ast.Expr {
	switch x := e.(type) {
	case *ast.CompositeLit:
		return x.Type
	case *ast.UnaryExpr:
		if x.Op == token.AND {
			return hxLitType(x.X)
		}
	case *ast.CallExpr:
		if id, ok := x.Fun.(*ast.Ident); ok && (id.Name == "new" || id.Name == "make") && len(x.Args) > 0 {
			return x.Args[0]
		}
	}
	return nil
}

// hxBaseName: last identifier of a (possibly starred / qualified) type expression.
func hxBaseName(t ast.Expr) string {
	switch x := t.(type) {
	case *ast.StarExpr:
		return hxBaseName(x.X)
	case *ast.ParenExpr:
		return hxBaseName(x.X)
	case *ast.Ident:
		return x.Name
	case *ast.SelectorExpr:
		return x.Sel.Name
	}
	return ""
}

func hxParseDir(dir string, only []string) (*hxPkg, *token.FileSet, []string, error) {
	fset := token.NewFileSet()
	var names []string
	if only != nil {
		names = only
	} else {
		ents, err := os.ReadDir(dir)
		if err != nil {
			return nil, nil, nil, err
		}
		for _, e := range ents {
			n := e.Name()
			if strings.HasSuffix(n, ".go") && !strings.HasSuffix(n, "_test.go") {
				names = append(names, n)
			}
		}
	}
	sort.Strings(names)
	var pkg *hxPkg
	for _, n := range names {
		path := filepath.Join(dir, n)
		af, err := parser.ParseFile(fset, path, nil, parser.ParseComments|parser.SkipObjectResolution)
		if err != nil {
			return nil, nil, nil, fmt.Errorf("parse %s: %v", path, err)
		}
		if pkg == nil {
			pkg = newHxPkg(af.Name.Name)
		}
		pkg.addFile(af, n)
	}
	if pkg == nil {
		return nil, nil, nil, fmt.Errorf("no Go files in %s", dir)
	}
	return pkg, fset, names, nil
}

// ---------------------------------------------------------------------------------- extractor

type hxExtractor struct {
	fset    *token.FileSet
	pkg     *hxPkg            // analysed files
	ext     map[string]*hxPkg // import name -> parsed external package (state, statedb)
	imports map[string]bool   // import names used by the analysed files
	tab     *HTables
	prog    *HProgram
	queue   []string
	seen    map[string]bool
	// per function
	fn       *HFunc
	fd       *ast.FuncDecl
	env      map[string]ast.Expr
	envPkg   map[string]string // var -> package the type expression is relative to ("" = analysed package)
	assigns  map[string]int
	locals   map[string]bool
	inSwitch int
	// round 3
	assignRHS map[string][]ast.Expr
	rhsText   string
}

func hxExprString(fset *token.FileSet, e ast.Node) string {
	var b bytes.Buffer
	printer.Fprint(&b, fset, e)
	s := b.String()
	s = strings.Join(strings.Fields(s), " ")
	return s
}

func (x *hxExtractor) pos(n ast.Node) string {
	p := x.fset.Position(n.Pos())
	return fmt.Sprintf("%s:%d", filepath.Base(p.Filename), p.Line)
}

// HExtract analyses the given files of one package directory.
// extDirs: import name -> directory of state-bearing packages whose declarations help receiver typing.
func HExtract(dir string, files []string, extDirs map[string]string, tab *HTables) (*HProgram, error) {
	pkg, fset, names, err := hxParseDir(dir, files)
	if err != nil {
		return nil, err
	}
	x := &hxExtractor{fset: fset, pkg: pkg, ext: map[string]*hxPkg{}, imports: map[string]bool{}, tab: tab, prog: &HProgram{}, seen: map[string]bool{}}
	x.prog.Facts.CallersOf = map[string][]string{}
	x.prog.Facts.ParsedFiles = names
	for name, d := range extDirs {
		if _, err := os.Stat(d); err != nil {
			continue
		}
		p, _, _, err := hxParseDir(d, nil)
		if err != nil {
			return nil, err
		}
		x.ext[name] = p
	}
	// imports and //export markers
	exported := map[string]bool{}
	type ent struct {
		name string
		pos  token.Pos
	}
	var entries []ent
	for _, n := range names {
		af, err := parser.ParseFile(token.NewFileSet(), filepath.Join(dir, n), nil, parser.ParseComments|parser.ImportsOnly)
		if err != nil {
			return nil, err
		}
		for _, im := range af.Imports {
			path := strings.Trim(im.Path.Value, "\"")
			nm := path[strings.LastIndex(path, "/")+1:]
			if im.Name != nil {
				nm = im.Name.Name
			}
			if nm == "v2" || strings.HasPrefix(nm, "v") && len(nm) == 2 {
				// module version suffix: package name is the element before it
				parts := strings.Split(path, "/")
				if len(parts) >= 2 && im.Name == nil {
					nm = parts[len(parts)-2]
				}
			}
			x.imports[nm] = true
		}
	}
	for name, fd := range pkg.funcs {
		if fd.Doc != nil {
			for _, c := range fd.Doc.List {
				if strings.HasPrefix(c.Text, "//export ") {
					if strings.TrimSpace(strings.TrimPrefix(c.Text, "//export ")) == fd.Name.Name {
						exported[name] = true
					}
				}
			}
		}
		if exported[name] || tab.QueryEntries[name] {
			entries = append(entries, ent{name, fd.Pos()})
		}
	}
	sort.Slice(entries, func(i, j int) bool {
		pi, pj := fset.Position(entries[i].pos), fset.Position(entries[j].pos)
		if pi.Filename != pj.Filename {
			return pi.Filename < pj.Filename
		}
		return pi.Line < pj.Line
	})
	for _, e := range entries {
		x.enqueue(e.name)
	}
	x.ifaceImpls()
	for len(x.queue) > 0 {
		name := x.queue[0]
		x.queue = x.queue[1:]
		fd := pkg.funcs[name]
		f := x.function(name, fd)
		f.Exported = exported[name]
		f.QueryEntry = tab.QueryEntries[name]
		x.prog.Funcs = append(x.prog.Funcs, f)
	}
	// //export functions in files of the directory that are not analysed (inventory only)
	if files != nil {
		ents, _ := os.ReadDir(dir)
		an := map[string]bool{}
		for _, n := range names {
			an[n] = true
		}
		for _, e := range ents {
			n := e.Name()
			if !strings.HasSuffix(n, ".go") || strings.HasSuffix(n, "_test.go") || an[n] {
				continue
			}
			src, err := os.ReadFile(filepath.Join(dir, n))
			if err != nil {
				continue
			}
			for _, line := range strings.Split(string(src), "\n") {
				if strings.HasPrefix(line, "//export ") {
					x.prog.Facts.OtherExports = append(x.prog.Facts.OtherExports, [2]string{n, strings.TrimSpace(strings.TrimPrefix(line, "//export "))})
				}
			}
		}
	}
	for k := range x.prog.Facts.CallersOf {
		sort.Strings(x.prog.Facts.CallersOf[k])
	}
	x.prog.Facts.Slot = hxSlotFacts(x, dir)
	return x.prog, nil
}

func (x *hxExtractor) enqueue(name string) {
	if !x.seen[name] {
		x.seen[name] = true
		x.queue = append(x.queue, name)
	}
}

func hxSkip() *HStmt { return &HStmt{Op: "skip"} }

func hxSeq(l ...*HStmt) *HStmt {
	var out []*HStmt
	for _, s := range l {
		if s == nil || s.Op == "skip" {
			continue
		}
		if s.Op == "seq" {
			out = append(out, s.L...)
		} else {
			out = append(out, s)
		}
	}
	switch len(out) {
	case 0:
		return hxSkip()
	case 1:
		return out[0]
	}
	return &HStmt{Op: "seq", L: out}
}

func (x *hxExtractor) function(name string, fd *ast.FuncDecl) *HFunc {
	p := x.fset.Position(fd.Pos())
	f := &HFunc{Name: name, File: filepath.Base(p.Filename), Line: p.Line}
	x.fn, x.fd = f, fd
	x.env, x.envPkg, x.assigns, x.locals = map[string]ast.Expr{}, map[string]string{}, map[string]int{}, map[string]bool{}
	x.inSwitch = 0
	bind := func(fl *ast.FieldList, n int) {
		if fl == nil {
			return
		}
		for _, fld := range fl.List {
			for _, id := range fld.Names {
				x.env[id.Name] = fld.Type
				x.assigns[id.Name] += n
				x.locals[id.Name] = true
			}
		}
	}
	bind(fd.Recv, 1)
	bind(fd.Type.Params, 1)
	bind(fd.Type.Results, 2) // named results are assigned by every return
	x.assignRHS = map[string][]ast.Expr{}
	if fd.Body != nil {
		x.countAssigns(fd.Body)
		x.collectAssignRHS(fd.Body)
		f.Body = x.block(fd.Body.List)
		if name == "luaCheckView" {
			x.checkViewRet(fd)
		}
	} else {
		f.Body = hxSkip()
	}
	if _, ex := x.tab.RefuseExempt[name]; ex {
		f.Body = hxSeq(&HStmt{Op: "sink", Sink: &HSink{Kind: "exempt", Name: "exempt: " + name, Pos: x.pos(fd)}, Pos: x.pos(fd)}, f.Body)
	}
	// assumptions of the reviewed table that apply to this function
	for _, a := range x.tab.Assume {
		if a.Fn != name {
			continue
		}
		var cl []HLit
		ok := true
		for _, t := range a.AnyOf {
			id := -1
			for i, at := range f.Atoms {
				if at == t {
					id = i
				}
			}
			if id < 0 {
				ok = false
				break
			}
			cl = append(cl, HLit{Atom: id, Pos: true})
		}
		if ok {
			f.Assume = append(f.Assume, cl)
			f.AssumeWhy = append(f.AssumeWhy, a.Why)
		}
	}
	return f
}

// countAssigns: how often each identifier is (re)assigned or has its address taken in the body.
func (x *hxExtractor) countAssigns(body ast.Node) {
	ast.Inspect(body, func(n ast.Node) bool {
		switch s := n.(type) {
		case *ast.AssignStmt:
			for _, l := range s.Lhs {
				if id, ok := l.(*ast.Ident); ok {
					x.assigns[id.Name]++
					if s.Tok == token.DEFINE {
						x.locals[id.Name] = true
					}
				}
			}
		case *ast.FuncLit:
			for _, fl := range []*ast.FieldList{s.Type.Params, s.Type.Results} {
				if fl != nil {
					for _, f := range fl.List {
						for _, id := range f.Names {
							x.locals[id.Name] = true
							x.assigns[id.Name] += 2
						}
					}
				}
			}
		case *ast.IncDecStmt:
			if id, ok := s.X.(*ast.Ident); ok {
				x.assigns[id.Name] += 2
			}
		case *ast.RangeStmt:
			for _, l := range []ast.Expr{s.Key, s.Value} {
				if id, ok := l.(*ast.Ident); ok {
					x.assigns[id.Name] += 2
					if s.Tok == token.DEFINE {
						x.locals[id.Name] = true
					}
				}
			}
		case *ast.ValueSpec:
			for _, id := range s.Names {
				x.locals[id.Name] = true
				if len(s.Values) == 0 {
					x.assigns[id.Name] += 2 // zero value first, assigned later
				} else {
					x.assigns[id.Name]++
				}
			}
		case *ast.UnaryExpr:
			if s.Op == token.AND {
				if id, ok := s.X.(*ast.Ident); ok {
					x.assigns[id.Name] += 2
				}
			}
		}
		return true
	})
}

func (x *hxExtractor) unknown(what string, n ast.Node) *HStmt {
	x.prog.Facts.Unknown = append(x.prog.Facts.Unknown, [3]string{x.fn.Name, what, x.pos(n)})
	return &HStmt{Op: "sink", Sink: &HSink{Kind: "mut", Name: "unknown:" + what, Pos: x.pos(n)}, Pos: x.pos(n)}
}

func (x *hxExtractor) sink(kind, name string, n ast.Node) *HStmt {
	if x.tab.RestoreFns[x.fn.Name] && (kind == "mut" || kind == "mutQ") {
		kind = "restore"
	}
	return &HStmt{Op: "sink", Sink: &HSink{Kind: kind, Name: name, Pos: x.pos(n)}, Pos: x.pos(n)}
}

// ---------------------------------------------------------------------------------- statements

func (x *hxExtractor) block(l []ast.Stmt) *HStmt {
	var out []*HStmt
	for _, s := range l {
		out = append(out, x.stmt(s))
	}
	return hxSeq(out...)
}

func (x *hxExtractor) later(body *HStmt) *HStmt {
	if body.Op == "skip" {
		return body
	}
	return &HStmt{Op: "loop", T: &HStmt{Op: "scope", T: body}}
}

func (x *hxExtractor) stmt(s ast.Stmt) *HStmt {
	switch s := s.(type) {
	case nil:
		return hxSkip()
	case *ast.EmptyStmt:
		return hxSkip()
	case *ast.ExprStmt:
		if c, ok := s.X.(*ast.CallExpr); ok {
			if id, ok := c.Fun.(*ast.Ident); ok && id.Name == "panic" {
				return hxSeq(x.effects(c.Args...), &HStmt{Op: "ret"})
			}
		}
		return x.effects(s.X)
	case *ast.AssignStmt:
		st := []*HStmt{x.effects(s.Rhs...)}
		for i, l := range s.Lhs {
			x.rhsText = "?"
			if len(s.Lhs) == len(s.Rhs) {
				x.rhsText = x.normText(s.Rhs[i])
			}
			st = append(st, x.write(l, "assign"))
		}
		x.bindAssign(s)
		return hxSeq(st...)
	case *ast.IncDecStmt:
		op := "inc"
		if s.Tok == token.DEC {
			op = "dec"
		}
		return x.write(s.X, op)
	case *ast.DeclStmt:
		var st []*HStmt
		if gd, ok := s.Decl.(*ast.GenDecl); ok {
			for _, sp := range gd.Specs {
				if vs, ok := sp.(*ast.ValueSpec); ok {
					st = append(st, x.effects(vs.Values...))
					for i, id := range vs.Names {
						if vs.Type != nil {
							x.setEnv(id.Name, vs.Type, "")
						} else if i < len(vs.Values) {
							t, p := x.typeOf(vs.Values[i])
							x.setEnv(id.Name, t, p)
						}
					}
				}
			}
		}
		return hxSeq(st...)
	case *ast.ReturnStmt:
		if x.refuses(s) {
			return hxSeq(x.effects(s.Results...), x.sink("refuse", "error return", s), &HStmt{Op: "ret"})
		}
		return hxSeq(x.effects(s.Results...), &HStmt{Op: "ret"})
	case *ast.BlockStmt:
		return x.block(s.List)
	case *ast.IfStmt:
		init := x.stmt(s.Init)
		eff, c := x.cond(s.Cond)
		t := x.block(s.Body.List)
		e := hxSkip()
		if s.Else != nil {
			e = x.stmt(s.Else)
		}
		if q, v := hxHasFlag(c); q || v {
			x.prog.Facts.FlagBranches = append(x.prog.Facts.FlagBranches,
				[3]string{x.fn.Name, hxCondText(c, x.fn.Atoms), "then=" + hBranchShape(t) + " else=" + hBranchShape(e)})
		}
		return hxSeq(init, eff, &HStmt{Op: "ite", C: c, T: t, E: e, Pos: x.pos(s)})
	case *ast.ForStmt:
		init := x.stmt(s.Init)
		var ce *HStmt = hxSkip()
		if s.Cond != nil {
			ce = x.effects(s.Cond)
		}
		save := x.inSwitch
		x.inSwitch = 0
		body := hxSeq(ce, x.block(s.Body.List), x.stmt(s.Post))
		x.inSwitch = save
		return hxSeq(init, &HStmt{Op: "loop", T: body, Pos: x.pos(s)})
	case *ast.RangeStmt:
		eff := x.effects(s.X)
		x.bindRange(s)
		save := x.inSwitch
		x.inSwitch = 0
		body := x.block(s.Body.List)
		x.inSwitch = save
		return hxSeq(eff, &HStmt{Op: "loop", T: body, Pos: x.pos(s)})
	case *ast.SwitchStmt:
		init := x.stmt(s.Init)
		tag := hxSkip()
		if s.Tag != nil {
			tag = x.effects(s.Tag)
		}
		return hxSeq(init, tag, x.cases(s.Body.List, s))
	case *ast.TypeSwitchStmt:
		init := x.stmt(s.Init)
		var as *HStmt
		switch a := s.Assign.(type) {
		case *ast.AssignStmt:
			as = x.effects(a.Rhs...)
			for _, l := range a.Lhs {
				if id, ok := l.(*ast.Ident); ok {
					x.setEnv(id.Name, nil, "")
				}
			}
		case *ast.ExprStmt:
			as = x.effects(a.X)
		}
		return hxSeq(init, as, x.cases(s.Body.List, s))
	case *ast.SelectStmt:
		return x.cases(s.Body.List, s)
	case *ast.BranchStmt:
		if s.Label != nil || s.Tok == token.GOTO || s.Tok == token.FALLTHROUGH {
			x.prog.Facts.Unsupported = append(x.prog.Facts.Unsupported, [3]string{x.fn.Name, s.Tok.String(), x.pos(s)})
			return x.unknown("control-flow "+s.Tok.String(), s)
		}
		if s.Tok == token.BREAK {
			return &HStmt{Op: "brk"}
		}
		if x.inSwitch > 0 {
			// `continue` inside a switch/select targets the enclosing loop; the switch is modelled as a
			// one-shot loop, so this shape is outside the subset
			x.prog.Facts.Unsupported = append(x.prog.Facts.Unsupported, [3]string{x.fn.Name, "continue in switch", x.pos(s)})
			return x.unknown("control-flow continue-in-switch", s)
		}
		return &HStmt{Op: "cont"}
	case *ast.LabeledStmt:
		x.prog.Facts.Unsupported = append(x.prog.Facts.Unsupported, [3]string{x.fn.Name, "label", x.pos(s)})
		return hxSeq(x.unknown("control-flow label", s), x.stmt(s.Stmt))
	case *ast.DeferStmt:
		return x.deferred(s.Call)
	case *ast.GoStmt:
		return x.deferred(s.Call)
	case *ast.SendStmt:
		return x.effects(s.Chan, s.Value)
	}
	return x.unknown(fmt.Sprintf("statement %T", s), s)
}

func (x *hxExtractor) deferred(c *ast.CallExpr) *HStmt {
	args := x.effects(c.Args...)
	if fl, ok := c.Fun.(*ast.FuncLit); ok {
		return hxSeq(args, x.later(x.block(fl.Body.List)))
	}
	return hxSeq(args, x.later(x.call(c, true)))
}

// cases: a switch/select is a one-shot loop so that `break` leaves it:  loop (seq (ite any c1 (ite any c2 …)) brk)
func (x *hxExtractor) cases(clauses []ast.Stmt, at ast.Node) *HStmt {
	x.inSwitch++
	defer func() { x.inSwitch-- }()
	var pre []*HStmt
	type cl struct{ body *HStmt }
	var cls []cl
	var def *HStmt
	for _, c := range clauses {
		switch c := c.(type) {
		case *ast.CaseClause:
			pre = append(pre, x.effects(c.List...))
			b := x.block(c.Body)
			if c.List == nil {
				def = b
			} else {
				cls = append(cls, cl{b})
			}
		case *ast.CommClause:
			var comm *HStmt = hxSkip()
			if c.Comm != nil {
				comm = x.stmt(c.Comm)
			}
			b := hxSeq(comm, x.block(c.Body))
			if c.Comm == nil {
				def = b
			} else {
				cls = append(cls, cl{b})
			}
		}
	}
	var chain *HStmt = hxSkip()
	if def != nil {
		chain = def
	}
	for i := len(cls) - 1; i >= 0; i-- {
		chain = &HStmt{Op: "ite", C: &HCond{Op: "any"}, T: cls[i].body, E: chain, Pos: x.pos(at)}
	}
	return hxSeq(hxSeq(pre...), &HStmt{Op: "loop", T: hxSeq(chain, &HStmt{Op: "brk"}), Pos: x.pos(at)})
}

// ---------------------------------------------------------------------------------- typing (best effort)

func (x *hxExtractor) setEnv(name string, t ast.Expr, pkg string) {
	if name == "_" {
		return
	}
	if old, ok := x.env[name]; ok && old != nil && t != nil {
		if hxExprString(x.fset, old) != hxExprString(x.fset, t) || x.envPkg[name] != pkg {
			x.env[name] = nil // conflicting declarations of one name: give up on it
			return
		}
	}
	if _, ok := x.env[name]; ok && t == nil {
		return
	}
	x.env[name] = t
	x.envPkg[name] = pkg
}

func (x *hxExtractor) bindAssign(s *ast.AssignStmt) {
	if len(s.Rhs) == 1 && len(s.Lhs) > 1 {
		ts, p := x.resultTypes(s.Rhs[0])
		for i, l := range s.Lhs {
			if id, ok := l.(*ast.Ident); ok {
				var t ast.Expr
				if i < len(ts) {
					t = ts[i]
				}
				if s.Tok == token.DEFINE || x.env[id.Name] == nil {
					x.setEnv(id.Name, t, p)
				}
			}
		}
		return
	}
	for i, l := range s.Lhs {
		if id, ok := l.(*ast.Ident); ok && i < len(s.Rhs) {
			if s.Tok == token.DEFINE || x.env[id.Name] == nil {
				t, p := x.typeOf(s.Rhs[i])
				x.setEnv(id.Name, t, p)
			}
		}
	}
}

func (x *hxExtractor) bindRange(s *ast.RangeStmt) {
	t, p := x.typeOf(s.X)
	t = x.underlying(t, p)
	var kt, vt ast.Expr
	switch tt := t.(type) {
	case *ast.MapType:
		kt, vt = tt.Key, tt.Value
	case *ast.ArrayType:
		vt = tt.Elt
	}
	if id, ok := s.Key.(*ast.Ident); ok {
		x.setEnv(id.Name, kt, p)
	}
	if id, ok := s.Value.(*ast.Ident); ok {
		x.setEnv(id.Name, vt, p)
	}
}

func (x *hxExtractor) pkgOf(name string) *hxPkg {
	if name == "" {
		return x.pkg
	}
	return x.ext[name]
}

// underlying resolves a named type of package p to its declaration (one step), through pointers.
func (x *hxExtractor) underlying(t ast.Expr, p string) ast.Expr {
	for i := 0; i < 4; i++ {
		switch tt := t.(type) {
		case *ast.StarExpr:
			t = tt.X
			continue
		case *ast.ParenExpr:
			t = tt.X
			continue
		case *ast.Ident:
			if pk := x.pkgOf(p); pk != nil {
				if d, ok := pk.types[tt.Name]; ok {
					if _, isStruct := d.(*ast.StructType); isStruct {
						return t
					}
					t = d
					continue
				}
			}
		}
		break
	}
	return t
}

// typeName: ("pkg", "Type") of a type expression relative to package p ("" = analysed package); ok=false if not a named type.
func (x *hxExtractor) typeName(t ast.Expr, p string) (string, string, bool) {
	for {
		switch tt := t.(type) {
		case *ast.StarExpr:
			t = tt.X
			continue
		case *ast.ParenExpr:
			t = tt.X
			continue
		case *ast.Ident:
			if hxBasicTypes[tt.Name] {
				return "", tt.Name, true
			}
			return p, tt.Name, true
		case *ast.SelectorExpr:
			if id, ok := tt.X.(*ast.Ident); ok {
				return id.Name, tt.Sel.Name, true
			}
		}
		return "", "", false
	}
}

func (x *hxExtractor) isPkgIdent(id *ast.Ident) bool {
	if x.locals[id.Name] {
		return false
	}
	if _, isVar := x.pkg.vars[id.Name]; isVar {
		return false
	}
	return x.imports[id.Name] || id.Name == "C"
}

// typeOf: type expression of e and the package it is relative to; nil if unknown.
func (x *hxExtractor) typeOf(e ast.Expr) (ast.Expr, string) {
	switch e := e.(type) {
	case *ast.ParenExpr:
		return x.typeOf(e.X)
	case *ast.Ident:
		if t, ok := x.env[e.Name]; ok {
			return t, x.envPkg[e.Name]
		}
		if t, ok := x.pkg.vars[e.Name]; ok {
			return t, ""
		}
	case *ast.UnaryExpr:
		if e.Op == token.AND {
			return x.typeOf(e.X)
		}
	case *ast.StarExpr:
		return x.typeOf(e.X)
	case *ast.CompositeLit:
		return e.Type, ""
	case *ast.TypeAssertExpr:
		return e.Type, ""
	case *ast.IndexExpr:
		t, p := x.typeOf(e.X)
		switch tt := x.underlying(t, p).(type) {
		case *ast.MapType:
			return tt.Value, p
		case *ast.ArrayType:
			return tt.Elt, p
		}
	case *ast.SliceExpr:
		return x.typeOf(e.X)
	case *ast.SelectorExpr:
		if id, ok := e.X.(*ast.Ident); ok && x.isPkgIdent(id) {
			if pk := x.ext[id.Name]; pk != nil {
				if t, ok := pk.vars[e.Sel.Name]; ok {
					return t, id.Name
				}
			}
			return nil, ""
		}
		t, p := x.typeOf(e.X)
		return x.fieldType(t, p, e.Sel.Name, 0)
	case *ast.CallExpr:
		ts, p := x.resultTypes(e)
		if len(ts) > 0 {
			return ts[0], p
		}
	}
	return nil, ""
}

func (x *hxExtractor) fieldType(t ast.Expr, p string, field string, depth int) (ast.Expr, string) {
	if t == nil || depth > 3 {
		return nil, ""
	}
	tp, tn, ok := x.typeName(t, p)
	if !ok {
		return nil, ""
	}
	pk := x.pkgOf(tp)
	if pk == nil {
		return nil, ""
	}
	if fs, ok := pk.structs[tn]; ok {
		if ft, ok := fs[field]; ok {
			return ft, tp
		}
		for _, em := range pk.embeds[tn] {
			if ft, fp := x.fieldType(em, tp, field, depth+1); ft != nil {
				return ft, fp
			}
		}
	}
	return nil, ""
}

func hxParseTypes(ts []string) []ast.Expr {
	var out []ast.Expr
	for _, t := range ts {
		e, err := parser.ParseExpr(t)
		if err != nil {
			e = nil
		}
		out = append(out, e)
	}
	return out
}

func (x *hxExtractor) resultTypes(e ast.Expr) ([]ast.Expr, string) {
	c, ok := e.(*ast.CallExpr)
	if !ok {
		if ta, ok := e.(*ast.TypeAssertExpr); ok {
			return []ast.Expr{ta.Type, ast.NewIdent("bool")}, ""
		}
		if ix, ok := e.(*ast.IndexExpr); ok {
			t, p := x.typeOf(ix)
			return []ast.Expr{t, ast.NewIdent("bool")}, p
		}
		t, p := x.typeOf(e)
		return []ast.Expr{t}, p
	}
	res := func(ft *ast.FuncType) []ast.Expr {
		var out []ast.Expr
		if ft.Results != nil {
			for _, f := range ft.Results.List {
				n := len(f.Names)
				if n == 0 {
					n = 1
				}
				for i := 0; i < n; i++ {
					out = append(out, f.Type)
				}
			}
		}
		return out
	}
	switch f := c.Fun.(type) {
	case *ast.ParenExpr:
		return []ast.Expr{f.X}, "" // conversion (*T)(x)
	case *ast.Ident:
		if f.Name == "new" && len(c.Args) == 1 {
			return []ast.Expr{c.Args[0]}, ""
		}
		if f.Name == "make" && len(c.Args) >= 1 {
			return []ast.Expr{c.Args[0]}, ""
		}
		if fd, ok := x.pkg.funcs[f.Name]; ok {
			return res(fd.Type), ""
		}
		if _, ok := x.pkg.types[f.Name]; ok {
			return []ast.Expr{f}, "" // conversion T(x)
		}
	case *ast.SelectorExpr:
		if id, ok := f.X.(*ast.Ident); ok && x.isPkgIdent(id) {
			if pk := x.ext[id.Name]; pk != nil {
				if fd, ok := pk.funcs[f.Sel.Name]; ok {
					return res(fd.Type), id.Name
				}
			}
			if ts, ok := x.tab.ExtResults[id.Name+"."+f.Sel.Name]; ok {
				return hxParseTypes(ts), ""
			}
			return nil, ""
		}
		t, p := x.typeOf(f.X)
		if tp, tn, ok := x.typeName(t, p); ok {
			if ts, ok := x.tab.ExtResults[tp+"."+tn+"."+f.Sel.Name]; ok && tp != "" {
				return hxParseTypes(ts), ""
			}
			if fd, fp := x.method(tp, tn, f.Sel.Name, 0); fd != nil {
				return res(fd.Type), fp
			}
			if pk := x.pkgOf(tp); pk != nil {
				if im, ok := pk.ifaces[tn]; ok {
					if ft, ok := im[f.Sel.Name]; ok {
						return res(ft), tp
					}
				}
			}
		}
	}
	return nil, ""
}

// method finds T.M in package pn, looking through embedded struct fields (also into other parsed packages);
// returns the declaration and the package it was found in.
func (x *hxExtractor) method(pn, tn, m string, depth int) (*ast.FuncDecl, string) {
	pk := x.pkgOf(pn)
	if pk == nil {
		return nil, ""
	}
	if fd, ok := pk.funcs[tn+"."+m]; ok {
		return fd, pn
	}
	if depth > 2 {
		return nil, ""
	}
	for _, em := range pk.embeds[tn] {
		if ep, en, ok := x.typeName(em, pn); ok {
			if fd, fp := x.method(ep, en, m, depth+1); fd != nil {
				return fd, fp
			}
		}
	}
	return nil, ""
}

// ---------------------------------------------------------------------------------- expressions

// effects: the calls (and function literals) inside the expressions, in evaluation order.
func (x *hxExtractor) effects(es ...ast.Expr) *HStmt {
	var out []*HStmt
	for _, e := range es {
		if e == nil {
			continue
		}
		out = append(out, x.exprEffects(e))
	}
	return hxSeq(out...)
}

func (x *hxExtractor) exprEffects(e ast.Expr) *HStmt {
	switch e := e.(type) {
	case nil:
		return hxSkip()
	case *ast.CallExpr:
		return x.call(e, false)
	case *ast.FuncLit:
		save, savePkg := x.env, x.envPkg
		b := x.block(e.Body.List)
		x.env, x.envPkg = save, savePkg
		return x.later(b)
	case *ast.ParenExpr:
		return x.exprEffects(e.X)
	case *ast.UnaryExpr:
		return x.exprEffects(e.X)
	case *ast.StarExpr:
		return x.exprEffects(e.X)
	case *ast.BinaryExpr:
		return hxSeq(x.exprEffects(e.X), x.exprEffects(e.Y))
	case *ast.SelectorExpr:
		return x.exprEffects(e.X)
	case *ast.IndexExpr:
		return hxSeq(x.exprEffects(e.X), x.exprEffects(e.Index))
	case *ast.SliceExpr:
		return hxSeq(x.exprEffects(e.X), x.exprEffects(e.Low), x.exprEffects(e.High), x.exprEffects(e.Max))
	case *ast.TypeAssertExpr:
		return x.exprEffects(e.X)
	case *ast.KeyValueExpr:
		return hxSeq(x.exprEffects(e.Key), x.exprEffects(e.Value))
	case *ast.CompositeLit:
		var out []*HStmt
		for _, el := range e.Elts {
			out = append(out, x.exprEffects(el))
		}
		x.compositeFacts(e)
		return hxSeq(out...)
	}
	return hxSkip()
}

func (x *hxExtractor) compositeFacts(e *ast.CompositeLit) {
	if hxBaseName(e.Type) == "executor" {
		for _, el := range e.Elts {
			if kv, ok := el.(*ast.KeyValueExpr); ok {
				if id, ok := kv.Key.(*ast.Ident); ok && id.Name == "ctx" && !x.ownCtx(kv.Value, 0) {
					x.prog.Facts.CtxArgs = append(x.prog.Facts.CtxArgs, [3]string{x.fn.Name, "executor{ctx}", hxExprString(x.fset, kv.Value)})
				}
			}
		}
	}
	if hxBaseName(e.Type) != "vmContext" {
		return
	}
	for _, el := range e.Elts {
		if kv, ok := el.(*ast.KeyValueExpr); ok {
			if id, ok := kv.Key.(*ast.Ident); ok && id.Name == "isQuery" {
				x.prog.Facts.QueryCtxLits = append(x.prog.Facts.QueryCtxLits, [2]string{x.fn.Name, hxExprString(x.fset, kv.Value)})
			}
		}
	}
}

var hxBuiltins = map[string]bool{"len": true, "cap": true, "append": true, "make": true, "new": true, "copy": true, "delete": true,
	"recover": true, "print": true, "println": true, "min": true, "max": true, "close": true, "complex": true, "real": true, "imag": true}

var hxBasicTypes = map[string]bool{"int": true, "int8": true, "int16": true, "int32": true, "int64": true, "uint": true, "uint8": true, "uint16": true,
	"uint32": true, "uint64": true, "uintptr": true, "string": true, "byte": true, "rune": true, "float32": true, "float64": true, "bool": true, "error": true}

func (x *hxExtractor) kindStmt(kind, name string, n ast.Node) *HStmt {
	if kind == "ro" {
		x.noteRo(name)
		return hxSkip()
	}
	return x.sink(kind, name, n)
}

func (x *hxExtractor) callFn(name string, n ast.Node) *HStmt {
	x.enqueue(name)
	x.prog.Facts.CallersOf[name] = hxAddUnique(x.prog.Facts.CallersOf[name], x.fn.Name)
	return &HStmt{Op: "call", Fn: name, Pos: x.pos(n)}
}

func hxAddUnique(l []string, s string) []string {
	for _, e := range l {
		if e == s {
			return l
		}
	}
	return append(l, s)
}

// call classifies one call expression (after the effects of its receiver and arguments).
func (x *hxExtractor) call(c *ast.CallExpr, _ bool) *HStmt {
	var pre []*HStmt
	fun := c.Fun
	for {
		if p, ok := fun.(*ast.ParenExpr); ok {
			fun = p.X
			continue
		}
		break
	}
	if sel, ok := fun.(*ast.SelectorExpr); ok {
		if id, ok := sel.X.(*ast.Ident); !ok || !x.isPkgIdent(id) {
			pre = append(pre, x.exprEffects(sel.X))
		}
	} else if _, ok := fun.(*ast.Ident); !ok {
		pre = append(pre, x.exprEffects(fun))
	}
	pre = append(pre, x.effects(c.Args...))
	return hxSeq(hxSeq(pre...), x.classify(c, fun))
}

func (x *hxExtractor) classify(c *ast.CallExpr, fun ast.Expr) *HStmt {
	switch f := fun.(type) {
	case *ast.FuncLit:
		// immediately invoked literal
		save, savePkg := x.env, x.envPkg
		b := x.block(f.Body.List)
		x.env, x.envPkg = save, savePkg
		return &HStmt{Op: "scope", T: b}
	case *ast.Ident:
		if x.locals[f.Name] {
			return x.unknown("call of function value "+f.Name, c)
		}
		if k, ok := x.tab.Calls[f.Name]; ok {
			return x.kindStmt(k, f.Name, c)
		}
		if fd, ok := x.pkg.funcs[f.Name]; ok {
			return hxSeq(x.ctxArgs(f.Name, fd, c), x.callFn(f.Name, c))
		}
		if hxBuiltins[f.Name] || hxBasicTypes[f.Name] {
			return hxSkip()
		}
		if _, ok := x.pkg.types[f.Name]; ok {
			return hxSkip() // conversion
		}
		return x.unknown("call of "+f.Name+" (not defined in the analysed files, not in the tables)", c)
	case *ast.SelectorExpr:
		m := f.Sel.Name
		if id, ok := f.X.(*ast.Ident); ok && x.isPkgIdent(id) {
			q := id.Name + "." + m
			if id.Name == "C" {
				if x.tab.ReenterC[m] {
					x.prog.Facts.Reenter = append(x.prog.Facts.Reenter, [2]string{x.fn.Name, m})
					return &HStmt{Op: "reenter", Pos: x.pos(c)}
				}
				return hxSkip()
			}
			if st, ok := x.sqlCall(c, id.Name, m); ok {
				return st
			}
			if k, ok := x.tab.Calls[q]; ok {
				return x.kindStmt(k, q, c)
			}
			if x.tab.BenignPkgs[id.Name] {
				return hxSkip()
			}
			return x.unknown("call of "+q, c)
		}
		t, p := x.typeOf(f.X)
		if tp, tn, ok := x.typeName(t, p); ok && t != nil {
			q := tn + "." + m
			if tp == "" {
				// in-package receiver type
				if k, ok := x.tab.Calls[q]; ok {
					return x.kindStmt(k, q, c)
				}
				if fd, fp := x.method("", tn, m, 0); fd != nil && fp == "" {
					return hxSeq(x.ctxArgs(hxFuncName(fd), fd, c), x.callFn(hxFuncName(fd), c))
				}
				if hxBasicTypes[tn] {
					return hxSkip()
				}
				// method promoted from an embedded type of a package that is not parsed (litetree embeds *sql.Conn)
				for _, et := range x.embeddedExternal(tn, 0) {
					i := strings.Index(et, ".")
					if st, ok := x.sqlCall(c, et, m); ok {
						return st
					}
					if k, ok := x.tab.Calls[et+"."+m]; ok {
						return x.kindStmt(k, et+"."+m, c)
					}
					if x.tab.StatePkgs[et[:i]] {
						return x.unknown("call of "+et+"."+m+" (promoted through "+tn+"; state-bearing type, unclassified method)", c)
					}
				}
				if _, known := x.pkg.types[tn]; known {
					return x.unknown("call of "+q+" (method not defined in the analysed files, not in the tables)", c)
				}
				// type name not declared in the analysed files (other file of the package, or a type parameter)
				return x.byName(m, c, tn)
			}
			if st, ok := x.sqlCall(c, tp+"."+tn, m); ok {
				return st
			}
			if x.tab.StatePkgs[tp] {
				if k, ok := x.tab.Calls[tp+"."+q]; ok {
					return x.kindStmt(k, tp+"."+q, c)
				}
				if k, ok := x.tab.Calls[q]; ok {
					return x.kindStmt(k, tp+"."+q, c)
				}
				// method promoted from an embedded field (BlockState embeds statedb.StateDB)
				if fd, fp := x.method(tp, tn, m, 0); fd != nil {
					if k, ok := x.tab.Calls[hxFuncName(fd)]; ok {
						return x.kindStmt(k, fp+"."+hxFuncName(fd), c)
					}
				}
				return x.unknown("call of "+tp+"."+q+" (state-bearing type, unclassified method)", c)
			}
			if x.tab.BenignPkgs[tp] {
				return hxSkip()
			}
			return x.byName(m, c, tp+"."+tn)
		}
		return x.byName(m, c, "?")
	}
	// conversions such as (*T)(x), []byte(x), map/func types …
	switch fun.(type) {
	case *ast.StarExpr, *ast.ArrayType, *ast.MapType, *ast.InterfaceType, *ast.ChanType, *ast.FuncType:
		return hxSkip()
	}
	return x.unknown("call of "+hxExprString(x.fset, fun), c)
}

// byName: receiver type unknown — decide by method name only (default: unknown sink).
func (x *hxExtractor) byName(m string, c ast.Node, recv string) *HStmt {
	if k, ok := x.tab.MethodNames[m]; ok {
		return x.kindStmt(k, recv+"."+m, c)
	}
	if x.tab.BenignMethods[m] {
		return hxSkip()
	}
	var cands []string
	for name, fd := range x.pkg.funcs {
		if fd.Recv != nil && fd.Name.Name == m {
			cands = append(cands, name)
		}
	}
	sort.Strings(cands)
	if len(cands) > 0 {
		var chain *HStmt = hxSkip()
		for i := len(cands) - 1; i >= 0; i-- {
			chain = &HStmt{Op: "ite", C: &HCond{Op: "any"}, T: x.callFn(cands[i], c), E: chain, Pos: x.pos(c)}
		}
		return chain
	}
	return x.unknown("call of method "+m+" on receiver of unknown type "+recv, c)
}

// write classifies an assignment target.
func (x *hxExtractor) write(l ast.Expr, op string) *HStmt {
	var pre []*HStmt
	base := l
	for {
		switch b := base.(type) {
		case *ast.ParenExpr:
			base = b.X
			continue
		case *ast.IndexExpr:
			pre = append(pre, x.exprEffects(b.Index))
			base = b.X
			continue
		case *ast.StarExpr:
			base = b.X
			continue
		case *ast.SliceExpr:
			base = b.X
			continue
		}
		break
	}
	switch b := base.(type) {
	case *ast.Ident:
		if b.Name == "_" {
			return hxSeq(pre...)
		}
		if x.locals[b.Name] {
			if base != l {
				// element / pointee of a local: a local slice, map or pointer; harmless unless it aliases state,
				// which only happens through fields (classified below) or calls (classified by the tables)
				if _, isStar := l.(*ast.StarExpr); isStar {
					return hxSeq(hxSeq(pre...), x.unknown("store through pointer "+hxExprString(x.fset, l), l))
				}
			}
			return hxSeq(pre...)
		}
		if x.tab.BenignGlobals[b.Name] {
			return hxSeq(pre...)
		}
		return hxSeq(hxSeq(pre...), x.unknown("write of package-level variable "+b.Name, l))
	case *ast.SelectorExpr:
		pre = append(pre, x.exprEffects(b.X))
		f := b.Sel.Name
		if id, ok := b.X.(*ast.Ident); ok {
			if x.isPkgIdent(id) {
				return hxSeq(hxSeq(pre...), x.unknown("write of "+id.Name+"."+f, l))
			}
			// field of a local struct *value* (declared `var v T` / `v := T{…}` with T not a pointer)
			if t, ok := x.env[id.Name]; ok && t != nil && x.isValueDecl(id.Name, t) {
				return hxSeq(pre...)
			}
		}
		if t, p := x.typeOf(b.X); t != nil {
			if tp, _, ok := x.typeName(t, p); ok && x.tab.BenignPkgs[tp] {
				return hxSeq(pre...) // e.g. a *types.CallInfo being filled in
			}
		}
		if t, p := x.typeOf(b.X); t != nil && p == "" {
			if _, tn, ok := x.typeName(t, p); ok && x.tab.TypedBenign[tn+"."+f] {
				return hxSeq(pre...)
			}
		}
		if k, ok := x.tab.FieldSinks[f]; ok {
			switch k {
			case "viewset":
				x.prog.Facts.IsViewWrites = append(x.prog.Facts.IsViewWrites, [2]string{x.fn.Name, x.rhsText})
				return hxSeq(hxSeq(pre...), x.sink("viewSet", "isView := "+x.rhsText, l))
			case "view":
				x.prog.Facts.ViewWrites = append(x.prog.Facts.ViewWrites, [2]string{x.fn.Name, op})
				switch op {
				case "inc":
					return hxSeq(hxSeq(pre...), x.sink("viewInc", "nestedView++", l))
				case "dec":
					return hxSeq(hxSeq(pre...), x.sink("viewDec", "nestedView--", l))
				}
				return hxSeq(hxSeq(pre...), x.sink("mut", "nestedView assigned", l))
			case "query":
				x.prog.Facts.QueryWrites = append(x.prog.Facts.QueryWrites, [2]string{x.fn.Name, x.pos(l)})
				return hxSeq(hxSeq(pre...), x.sink("mut", "isQuery assigned", l))
			}
			return hxSeq(hxSeq(pre...), x.sink(k, "field "+f, l))
		}
		if x.tab.BenignFields[f] {
			return hxSeq(pre...)
		}
		return hxSeq(hxSeq(pre...), x.unknown("write of field "+f, l))
	}
	return hxSeq(hxSeq(pre...), x.unknown("assignment to "+hxExprString(x.fset, l), l))
}

// isValueDecl: the local was declared with a non-pointer struct type (so field writes stay local).
func (x *hxExtractor) isValueDecl(name string, t ast.Expr) bool {
	if _, ptr := t.(*ast.StarExpr); ptr {
		return false
	}
	// parameters / receivers may alias; only body-declared locals count
	for _, fl := range []*ast.FieldList{x.fd.Recv, x.fd.Type.Params, x.fd.Type.Results} {
		if fl == nil {
			continue
		}
		for _, f := range fl.List {
			for _, id := range f.Names {
				if id.Name == name {
					return false
				}
			}
		}
	}
	decl := false
	ast.Inspect(x.fd.Body, func(n ast.Node) bool {
		switch s := n.(type) {
		case *ast.ValueSpec:
			for _, id := range s.Names {
				if id.Name == name && s.Type != nil {
					if _, ptr := s.Type.(*ast.StarExpr); !ptr {
						decl = true
					}
				}
			}
		case *ast.AssignStmt:
			if s.Tok == token.DEFINE {
				for i, l := range s.Lhs {
					if id, ok := l.(*ast.Ident); ok && id.Name == name && i < len(s.Rhs) && len(s.Lhs) == len(s.Rhs) {
						if _, ok := s.Rhs[i].(*ast.CompositeLit); ok {
							decl = true
						}
					}
				}
			}
		}
		return true
	})
	switch t.(type) {
	case *ast.Ident, *ast.SelectorExpr:
		return decl
	}
	return false
}

// ---------------------------------------------------------------------------------- conditions

func hxIsLit(e ast.Expr, v string) bool {
	switch l := e.(type) {
	case *ast.Ident:
		return l.Name == v
	case *ast.BasicLit:
		return l.Value == v
	case *ast.ParenExpr:
		return hxIsLit(l.X, v)
	}
	return false
}

func hxIsField(e ast.Expr, f string) bool {
	for {
		if p, ok := e.(*ast.ParenExpr); ok {
			e = p.X
			continue
		}
		break
	}
	s, ok := e.(*ast.SelectorExpr)
	return ok && s.Sel.Name == f
}

// flagTest recognises tests of vmContext.isQuery / vmContext.nestedView; returns (op, positive, ok).
func (x *hxExtractor) flagTest(e ast.Expr) (string, bool, bool) {
	for {
		if p, ok := e.(*ast.ParenExpr); ok {
			e = p.X
			continue
		}
		break
	}
	if x.flagField(e, "isQuery") {
		return "query", true, true
	}
	if u, ok := e.(*ast.UnaryExpr); ok && u.Op == token.NOT {
		if op, pos, ok := x.flagTest(u.X); ok {
			return op, !pos, true
		}
	}
	b, ok := e.(*ast.BinaryExpr)
	if !ok {
		return "", false, false
	}
	l, r, op := b.X, b.Y, b.Op
	if hxIsField(r, "isQuery") || hxIsField(r, "nestedView") {
		l, r = r, l
		switch op {
		case token.LSS:
			op = token.GTR
		case token.GTR:
			op = token.LSS
		case token.LEQ:
			op = token.GEQ
		case token.GEQ:
			op = token.LEQ
		}
	}
	if x.flagField(l, "isQuery") {
		switch {
		case op == token.EQL && hxIsLit(r, "true"), op == token.NEQ && hxIsLit(r, "false"):
			return "query", true, true
		case op == token.EQL && hxIsLit(r, "false"), op == token.NEQ && hxIsLit(r, "true"):
			return "query", false, true
		}
	}
	if x.flagField(l, "nestedView") {
		switch {
		case op == token.GTR && hxIsLit(r, "0"), op == token.NEQ && hxIsLit(r, "0"), op == token.GEQ && hxIsLit(r, "1"):
			return "view", true, true
		case op == token.EQL && hxIsLit(r, "0"), op == token.LEQ && hxIsLit(r, "0"), op == token.LSS && hxIsLit(r, "1"):
			return "view", false, true
		}
	}
	return "", false, false
}

var hxPureMethods = map[string]bool{"Cmp": true, "Sign": true}
var hxStableGlobals = map[string]bool{"zeroBig": true, "nil": true, "true": true, "false": true}

// stable: the expression reads only single-assignment locals / parameters, literals and pure comparisons.
func (x *hxExtractor) stable(e ast.Expr) bool {
	ok := true
	ast.Inspect(e, func(n ast.Node) bool {
		switch v := n.(type) {
		case *ast.Ident:
			if hxStableGlobals[v.Name] {
				return true
			}
			if x.locals[v.Name] {
				if x.assigns[v.Name] > 1 {
					ok = false
				}
				return true
			}
			if v.Name == "len" || hxPureMethods[v.Name] {
				return true
			}
			ok = false
		case *ast.SelectorExpr:
			if c, isCallee := v.X.(*ast.Ident); isCallee && hxPureMethods[v.Sel.Name] {
				_ = c
				return true
			}
			if x.isViewRead(v) {
				return false // the executor's own isView: written only while the executor is built (fact isViewWrites)
			}
			ok = false
		case *ast.CallExpr:
			switch f := v.Fun.(type) {
			case *ast.Ident:
				if f.Name != "len" {
					ok = false
				}
			case *ast.SelectorExpr:
				if !hxPureMethods[f.Sel.Name] {
					ok = false
				} else if _, isId := f.X.(*ast.Ident); !isId {
					ok = false
				}
			default:
				ok = false
			}
		case *ast.FuncLit, *ast.StarExpr, *ast.IndexExpr, *ast.UnaryExpr:
			if u, isU := n.(*ast.UnaryExpr); isU && (u.Op == token.NOT || u.Op == token.SUB) {
				return true
			}
			ok = false
		}
		return ok
	})
	return ok
}

func (x *hxExtractor) atom(e ast.Expr) *HCond {
	txt := x.normText(e)
	for i, a := range x.fn.Atoms {
		if a == txt {
			return &HCond{Op: "atom", Atom: i}
		}
	}
	x.fn.Atoms = append(x.fn.Atoms, txt)
	return &HCond{Op: "atom", Atom: len(x.fn.Atoms) - 1}
}

func hxHasFlag(c *HCond) (q, v bool) {
	if c == nil {
		return
	}
	switch c.Op {
	case "query":
		return true, false
	case "view":
		return false, true
	}
	q1, v1 := hxHasFlag(c.A)
	q2, v2 := hxHasFlag(c.B)
	return q1 || q2, v1 || v2
}

// hxIsRO: the condition is exactly the read-only test  query ∨ view
func hxIsRO(c *HCond) bool {
	return c.Op == "or" && ((c.A.Op == "query" && c.B.Op == "view") || (c.A.Op == "view" && c.B.Op == "query"))
}

func (x *hxExtractor) condExpr(e ast.Expr) *HCond {
	for {
		if p, ok := e.(*ast.ParenExpr); ok {
			e = p.X
			continue
		}
		break
	}
	if op, pos, ok := x.flagTest(e); ok {
		c := &HCond{Op: op}
		if !pos {
			c = &HCond{Op: "not", A: c}
		}
		return c
	}
	switch v := e.(type) {
	case *ast.UnaryExpr:
		if v.Op == token.NOT {
			return &HCond{Op: "not", A: x.condExpr(v.X)}
		}
	case *ast.BinaryExpr:
		if v.Op == token.LAND {
			return &HCond{Op: "and", A: x.condExpr(v.X), B: x.condExpr(v.Y)}
		}
		if v.Op == token.LOR {
			return &HCond{Op: "or", A: x.condExpr(v.X), B: x.condExpr(v.Y)}
		}
	}
	if x.stable(e) {
		return x.atom(e)
	}
	return &HCond{Op: "any"}
}

// cond: effects of the calls inside the condition, and its abstraction.
func (x *hxExtractor) cond(e ast.Expr) (*HStmt, *HCond) {
	eff := x.effects(e)
	c := x.condExpr(e)
	q, v := hxHasFlag(c)
	switch {
	case q && v && !hxIsRO(c):
		// guard conjoined / combined with something else
		x.prog.Facts.GuardWhen = append(x.prog.Facts.GuardWhen, [2]string{x.fn.Name, hxCondText(c, x.fn.Atoms)})
	case q && !v:
		x.prog.Facts.QueryOnly = append(x.prog.Facts.QueryOnly, [2]string{x.fn.Name, hxCondText(c, x.fn.Atoms)})
	case v && !q:
		x.prog.Facts.ViewOnly = append(x.prog.Facts.ViewOnly, [2]string{x.fn.Name, hxCondText(c, x.fn.Atoms)})
	}
	return eff, c
}
