package main

// Generated facts of C20 besides the IR: corpus annotations, classification inventory of the state API,
// call sites of the read-only entry points.  Self-contained (also linked into harness/c20).

import (
	"fmt"
	"go/ast"
	"go/parser"
	"go/token"
	"os"
	"path/filepath"
	"sort"
	"strings"
)

// HGen is everything that is generated for C20 (also used by harness/c20).
type HGen struct {
	Repo       string
	Real       *HProgram
	Corpus     *HProgram
	Expect     map[string]string // corpus function -> expected verdict
	StateAPI   [][3]string       // (type, method, class) class = kind | "unclassified"
	QueryCalls [][4]string       // (file, enclosing function, callee, origin of the BlockState argument)
	C          *HCFacts
}

func HGenerate(repo, corpus string) (*HGen, error) {
	g := &HGen{Repo: repo, Expect: map[string]string{}}
	var err error
	g.Real, err = HExtract(filepath.Join(repo, "contract"), hostFiles, hostExtDirs(repo), hostTables)
	if err != nil {
		return nil, err
	}
	if corpus != "" {
		g.Corpus, err = HExtract(corpus, nil, hostExtDirs(repo), hostTables)
		if err != nil {
			return nil, err
		}
		g.Expect, err = HCorpusExpect(corpus)
		if err != nil {
			return nil, err
		}
		for _, f := range g.Corpus.Funcs {
			if f.Exported {
				if _, ok := g.Expect[f.Name]; !ok {
					return nil, fmt.Errorf("corpus callback %s has no `// verdict:` annotation", f.Name)
				}
			}
		}
	} else {
		g.Corpus = &HProgram{}
	}
	g.StateAPI, err = HStateAPI(repo, hostTables)
	if err != nil {
		return nil, err
	}
	g.QueryCalls, err = HQueryCalls(repo)
	if err != nil {
		return nil, err
	}
	g.C, err = HScanC(filepath.Join(repo, "contract"), g.Real)
	if err != nil {
		return nil, err
	}
	return g, nil
}

// HCorpusExpect reads the `// verdict: <guarded|unguarded|pure>` annotation in the doc comment of every
// `//export`ed function of the corpus.
func HCorpusExpect(dir string) (map[string]string, error) {
	out := map[string]string{}
	ents, err := os.ReadDir(dir)
	if err != nil {
		return nil, err
	}
	for _, e := range ents {
		if !strings.HasSuffix(e.Name(), ".go") || strings.HasSuffix(e.Name(), "_test.go") {
			continue
		}
		fset := token.NewFileSet()
		af, err := parser.ParseFile(fset, filepath.Join(dir, e.Name()), nil, parser.ParseComments|parser.SkipObjectResolution)
		if err != nil {
			return nil, err
		}
		for _, d := range af.Decls {
			fd, ok := d.(*ast.FuncDecl)
			if !ok || fd.Doc == nil {
				continue
			}
			for _, c := range fd.Doc.List {
				if strings.HasPrefix(c.Text, "// verdict:") {
					v := strings.Fields(strings.TrimPrefix(c.Text, "// verdict:"))
					if len(v) == 0 || (v[0] != "guarded" && v[0] != "unguarded" && v[0] != "pure") {
						return nil, fmt.Errorf("%s: bad verdict annotation on %s", e.Name(), fd.Name.Name)
					}
					out[hxFuncName(fd)] = v[0]
				}
			}
		}
	}
	return out, nil
}

// HStateAPI lists every method of the state-bearing types (hostStateTypes) with its class in the tables.
func HStateAPI(repo string, tab *HTables) ([][3]string, error) {
	var out [][3]string
	dirs := hostExtDirs(repo)
	var pkgs []string
	for p := range hostStateTypes {
		pkgs = append(pkgs, p)
	}
	sort.Strings(pkgs)
	for _, p := range pkgs {
		pk, _, _, err := hxParseDir(dirs[p], nil)
		if err != nil {
			return nil, err
		}
		var names []string
		for n, fd := range pk.funcs {
			if fd.Recv == nil || !fd.Name.IsExported() {
				continue
			}
			for _, t := range hostStateTypes[p] {
				if hxRecvName(fd) == t {
					names = append(names, n)
				}
			}
		}
		sort.Strings(names)
		for _, n := range names {
			cls, ok := tab.Calls[n]
			if !ok {
				cls = "unclassified"
			}
			i := strings.Index(n, ".")
			// a mutating method whose bare name is treated as harmless on untyped receivers would be a hole
			if ok && cls != "ro" && tab.BenignMethods[n[i+1:]] {
				cls = "conflict:benign-name"
			}
			if ok && cls != "ro" {
				if k, has := tab.MethodNames[n[i+1:]]; !has || (k != cls && !(k == "mut")) {
					cls = "conflict:method-name-table"
				}
			}
			out = append(out, [3]string{n[:i], n[i+1:], cls})
		}
	}
	return out, nil
}

// HQueryCalls: call sites of contract.Query / contract.CheckFeeDelegation in chain/chainservice.go, chain/chainhandle.go and of
// CheckFeeDelegation in contract/contract.go, with the origin of the BlockState argument (argument index 1).
func HQueryCalls(repo string) ([][4]string, error) {
	var out [][4]string
	for _, rel := range []string{"chain/chainservice.go", "chain/chainhandle.go", "contract/contract.go"} {
		path := filepath.Join(repo, rel)
		fset := token.NewFileSet()
		af, err := parser.ParseFile(fset, path, nil, parser.SkipObjectResolution)
		if err != nil {
			return nil, err
		}
		for _, d := range af.Decls {
			fd, ok := d.(*ast.FuncDecl)
			if !ok || fd.Body == nil {
				continue
			}
			// assignments `x := <call>` seen so far, in source order
			origin := map[string]string{}
			if fd.Type.Params != nil {
				for _, f := range fd.Type.Params.List {
					for _, n := range f.Names {
						origin[n.Name] = "parameter"
					}
				}
			}
			ast.Inspect(fd.Body, func(n ast.Node) bool {
				switch s := n.(type) {
				case *ast.AssignStmt:
					if len(s.Lhs) >= 1 && len(s.Rhs) == 1 {
						if id, ok := s.Lhs[0].(*ast.Ident); ok {
							if c, ok := s.Rhs[0].(*ast.CallExpr); ok {
								origin[id.Name] = hxPlain(c.Fun)
							} else {
								origin[id.Name] = "expression"
							}
						}
					}
				case *ast.CallExpr:
					callee := hxPlain(s.Fun)
					if callee == "contract.Query" || callee == "contract.CheckFeeDelegation" || (rel == "contract/contract.go" && (callee == "Query" || callee == "CheckFeeDelegation")) {
						o := "?"
						if len(s.Args) > 1 {
							if id, ok := s.Args[1].(*ast.Ident); ok {
								if v, ok := origin[id.Name]; ok {
									o = v
								}
							}
						}
						out = append(out, [4]string{rel, hxFuncName(fd), callee, o})
					}
				}
				return true
			})
		}
	}
	return out, nil
}

func hxPlain(e ast.Expr) string {
	switch x := e.(type) {
	case *ast.Ident:
		return x.Name
	case *ast.SelectorExpr:
		return hxPlain(x.X) + "." + x.Sel.Name
	case *ast.ParenExpr:
		return hxPlain(x.X)
	case *ast.StarExpr:
		return hxPlain(x.X)
	}
	return "?"
}
