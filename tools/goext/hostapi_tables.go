package main

// Reviewed classification tables of the host-API extractor (C20).  TRUSTED: the theorem
// `all_callbacks_ok` says "no sink of kind mut (and, in query mode, mutQ) is reachable in a read-only
// context"; which calls *are* such sinks is decided here, by review of the callee's source.
//
// kinds
//   mut      changes chain-visible state: contract storage, balances, nonces, code, accounts, events,
//            governance state, staged/committed state objects
//   mutQ     opens a *writable* SQL transaction / savepoint: forbidden in query mode (where the handle must
//            come from beginReadOnly); allowed in a view function running inside a transaction, where the
//            C side refuses db.exec / pstmt:exec through luaCheckView (generated C facts)
//   restore  puts state back to a recorded recovery point (recoveryPoint.revertState, event truncation in
//            luaDropEvent, SQL rollback to savepoint).  Not required to be guarded; the argument why it is
//            the identity in a read-only region is Model.HostApi.Snap (snapshots taken inside a region
//            without mutation all equal the state at entry).
//   txctl    recovery-point / savepoint bookkeeping that changes no data (Snapshot(), subSavepoint, release…)
//   cache    per-block code/ABI caches and in-memory code of the synthetic multicall contract state
//   ro       reads
//
// Anything that reaches a state-bearing package, receiver or field and is in none of the tables is emitted
// by the extractor as `sink mut "unknown:…"`.

var hostTables = &HTables{
	Calls: map[string]string{
		// ---- package state (state/account.go, state/blockstate.go)
		"state.SendBalance":           "mut", // SubBalance + AddBalance
		"state.CreateAccountState":    "mut", // marks a fresh account object as new contract (SqlRecoveryPoint = 1, deploy flag)
		"state.GetAccountState":       "ro",
		"state.InitAccountState":      "ro",
		"state.NewBlockState":         "ro",
		"AccountState.AddBalance":     "mut",
		"AccountState.SubBalance":     "mut",
		"AccountState.SetNonce":       "mut",
		"AccountState.SetCodeHash":    "mut",
		"AccountState.SetRP":          "mut",
		"AccountState.SetStorageRoot": "mut",
		"AccountState.SetRedeploy":    "mut",
		"AccountState.PutState":       "mut",
		"AccountState.Reset":          "mut",
		"AccountState.AccountID":      "ro",
		"AccountState.Balance":        "ro",
		"AccountState.CodeHash":       "ro",
		"AccountState.ID":             "ro",
		"AccountState.IDNoPadding":    "ro",
		"AccountState.IsContract":     "ro",
		"AccountState.IsDeploy":       "ro",
		"AccountState.IsNew":          "ro",
		"AccountState.IsRedeploy":     "ro",
		"AccountState.Nonce":          "ro",
		"AccountState.RP":             "ro",
		"AccountState.State":          "ro",
		"AccountState.StorageRoot":    "ro",
		"BlockState.AddABI":           "cache",
		"BlockState.AddCode":          "cache",
		"BlockState.RemoveCache":      "cache",
		"BlockState.GetABI":           "ro",
		"BlockState.GetCode":          "ro",
		"BlockState.AddInternalOps":   "mut",
		"BlockState.AddReceipt":       "mut",
		"BlockState.Rollback":         "mut",
		"BlockState.SetConsensus":     "mut",
		"BlockState.SetGasPrice":      "mut",
		"BlockState.SetPrevBlockHash": "mut",
		"BlockState.SetTimeoutTx":     "mut",
		"BlockState.Snapshot":         "txctl",
		"BlockState.Consensus":        "ro",
		"BlockState.InternalOps":      "ro",
		"BlockState.PrevBlockHash":    "ro",
		"BlockState.Receipts":         "ro",
		"BlockState.TimeoutTx":        "ro",
		// ---- package statedb (state/statedb/*.go)
		"statedb.OpenContractState":         "ro",
		"statedb.OpenContractStateAccount":  "ro",
		"statedb.GetSystemAccountState":     "ro",
		"statedb.GetNameAccountState":       "ro",
		"statedb.GetEnterpriseAccountState": "ro",
		"statedb.GetMultiCallState":         "ro",
		"statedb.StageContractState":        "mut",
		"ContractState.SetData":             "mut",
		"ContractState.DeleteData":          "mut",
		"ContractState.SetCode":             "mut",
		"ContractState.SetRawKV":            "mut",
		"ContractState.Rollback":            "restore",
		"ContractState.SetMultiCallCode":    "cache", // in-memory code of the synthetic multicall state (storage == nil)
		"ContractState.Snapshot":            "txctl",
		"ContractState.GetAccountID":        "ro",
		"ContractState.GetCode":             "ro",
		"ContractState.GetData":             "ro",
		"ContractState.GetID":               "ro",
		"ContractState.GetInitialData":      "ro",
		"ContractState.GetRawKV":            "ro",
		"ContractState.GetSourceCode":       "ro",
		"ContractState.HasKey":              "ro",
		"ContractState.Hash":                "ro",
		"ContractState.Marshal":             "ro",
		"ContractState.IsMultiCall":         "ro",
		// methods promoted from the embedded *types.State (generated protobuf getters)
		"ContractState.GetCodeHash":         "ro",
		"ContractState.GetBalanceBigInt":    "ro",
		"ContractState.GetBalance":          "ro",
		"ContractState.GetNonce":            "ro",
		"ContractState.GetStorageRoot":      "ro",
		"ContractState.GetSqlRecoveryPoint": "ro",
		"StateDB.PutState":                  "mut",
		"StateDB.Update":                    "mut",
		"StateDB.Commit":                    "mut",
		"StateDB.Revert":                    "mut",
		"StateDB.Rollback":                  "mut",
		"StateDB.SetRoot":                   "mut",
		"StateDB.LoadCache":                 "mut",
		"StateDB.Snapshot":                  "txctl",
		"StateDB.Clone":                     "ro",
		"StateDB.Dump":                      "ro",
		"StateDB.RawDump":                   "ro",
		"StateDB.RawDumpWith":               "ro",
		"StateDB.GetAccountAndProof":        "ro",
		"StateDB.GetAccountState":           "ro",
		"StateDB.GetRoot":                   "ro",
		"StateDB.GetState":                  "ro",
		"StateDB.GetVarAndProof":            "ro",
		"StateDB.HasMarker":                 "ro",
		"StateDB.IsLegacyTrieKey":           "ro",
		"StateDB.TrieQuery":                 "ro",
		"ChainStateDB.Apply":                "mut",
		"ChainStateDB.Close":                "mut",
		"ChainStateDB.Init":                 "mut",
		"ChainStateDB.SetGenesis":           "mut",
		"ChainStateDB.SetRoot":              "mut",
		"ChainStateDB.UpdateRoot":           "mut",
		"ChainStateDB.Clone":                "ro",
		"ChainStateDB.GetRoot":              "ro",
		"ChainStateDB.GetStateDB":           "ro",
		"ChainStateDB.IsExistState":         "ro",
		"ChainStateDB.NewBlockState":        "ro",
		"ChainStateDB.OpenNewStateDB":       "ro",
		// ---- governance (contract/system, contract/name)
		"system.ExecuteSystemTx": "mut",
		"system.GetStaking":      "ro",
		"name.Resolve":           "ro",
		"name.GetAddress":        "ro",
		"blacklist.Check":        "ro",
		// ---- package contract
		// statesql.go is analysed (round 3): beginReadOnly, readOnlyConn, newReadOnlySqlTx, litetree.snapshotView and the
		// implementations of sqlTx are extracted like everything else.  beginTx (writable litetree transaction; its body
		// uses goto) stays a table entry: the whole call is forbidden in query mode.
		"beginTx": "mutQ",
		// internal_operations.go is analysed as well (round 3): no table entries.
		// database/sql as used by statesql.go ("sql" is a state-bearing package: default-deny).  sql.Open and the
		// Exec methods are classified by their argument (hostapi_deep.go: sqlCall, SQLPrefixes below).
		"sql.DB.Ping":              "ro",
		"sql.DB.Conn":              "ro",    // takes a connection of the pool of an already opened DB
		"sql.DB.Close":             "txctl", // closes the handle
		"sql.Conn.Close":           "txctl",
		"sql.Conn.PingContext":     "ro",
		"sql.Conn.BeginTx":         "mutQ",
		"sql.Conn.QueryRowContext": "ro",
		"sql.Tx.Commit":            "mut",
		"sql.Tx.Rollback":          "restore",
		"SQLiteConn.DBCacheFlush":  "txctl", // sqlite3.go: sqlite3_db_cacheflush
		// vm.go: the chain reader handed to the VM (interface; implemented by chain.ChainDB, read-only methods)
		"ChainAccessor.GetBestBlock": "ro",
		"ChainAccessor.GetBlockByNo": "ro",
		// contract.go / ethstorageproof.go: pure
		"CreateContractID": "ro",
		"rlpString":        "ro",
		// lstate_factory.go / hook.go / ethstorageproof.go: VM pool and pure helpers
		"GetLState":             "ro",
		"FreeLState":            "ro",
		"FlushLStates":          "ro",
		"executor.setCountHook": "ro",
		"verifyEthStorageProof": "ro",
		"keccak256":             "ro",
		"newVmError":            "ro",
		"newVmSystemError":      "ro",
		"newDbSystemError":      "ro",
		// recovery points (vm_state.go): revertState puts balances, nonce, storage buffer, code and the SQL
		// savepoint back to what the recovery point recorded
		"recoveryPoint.revertState": "restore",
		// sqlTx (statesql.go)
		"sqlTx.savepoint":              "mutQ",
		"sqlTx.begin":                  "txctl", // "BEGIN" after a lost savepoint (executor.rollbackToSavepoint); an error on a read-only tx
		"sqlTx.commit":                 "mut",
		"sqlTx.release":                "txctl",
		"sqlTx.subSavepoint":           "txctl",
		"sqlTx.subRelease":             "txctl",
		"sqlTx.rollback":               "restore",
		"sqlTx.rollbackToSavepoint":    "restore",
		"sqlTx.rollbackToSubSavepoint": "restore",
		"sqlTx.close":                  "txctl",
		"sqlTx.getHandle":              "ro",
	},
	// receiver type not inferable: decide by method name (names of the state API above)
	MethodNames: map[string]string{
		"SetData": "mut", "DeleteData": "mut", "SetCode": "mut", "SetRawKV": "mut", "AddBalance": "mut", "SubBalance": "mut",
		"SetNonce": "mut", "SetCodeHash": "mut", "SetRP": "mut", "SetStorageRoot": "mut", "SetRedeploy": "mut", "PutState": "mut",
		"Reset": "mut", "AddInternalOps": "mut", "AddReceipt": "mut", "Rollback": "mut", "SetConsensus": "mut", "SetGasPrice": "mut",
		"SetPrevBlockHash": "mut", "SetTimeoutTx": "mut", "Update": "mut", "Commit": "mut", "Revert": "mut", "SetRoot": "mut",
		"LoadCache": "mut", "Apply": "mut", "SetGenesis": "mut", "UpdateRoot": "mut", "SetMultiCallCode": "cache",
		"AddABI": "cache", "AddCode": "cache", "RemoveCache": "cache", "Snapshot": "txctl",
		"savepoint": "mutQ", "begin": "txctl", "commit": "mut", "release": "txctl", "subSavepoint": "txctl", "subRelease": "txctl",
		"rollback": "restore", "rollbackToSavepoint": "restore", "rollbackToSubSavepoint": "restore", "revertState": "restore",
	},
	StatePkgs: map[string]bool{"state": true, "statedb": true, "system": true, "name": true, "enterprise": true, "blacklist": true, "sql": true},
	BenignPkgs: map[string]bool{
		"fmt": true, "strings": true, "errors": true, "strconv": true, "bytes": true, "big": true, "sha256": true, "hex": true, "base58": true,
		"json": true, "jsoniter": true, "time": true, "sort": true, "os": true, "unsafe": true, "reflect": true, "rand": true, "context": true,
		"sync": true, "math": true, "util": true, "luac": true, "types": true, "dbkey": true, "fee": true, "common": true, "log": true,
		"btcec": true, "ecdsa": true,
	},
	// method names that are harmless when the receiver type is unknown or benign (loggers, hashes, big.Int, errors …)
	BenignMethods: map[string]bool{
		"Error": true, "String": true, "Info": true, "Warn": true, "Debug": true, "Trace": true, "Str": true, "Msg": true, "Err": true,
		"AnErr": true, "Int": true, "Int32": true, "Int64": true, "Uint64": true, "Stringer": true, "IsDebugEnabled": true, "Bool": true,
		"Cmp": true, "Sign": true, "Bytes": true, "SetString": true, "SetBytes": true, "Add": true, "Mul": true, "Uint64V": true,
		"Write": true, "WriteString": true, "Sum": true, "Close": true, "Lock": true, "Unlock": true, "Done": true, "Intn": true,
		"Name": true, "Len": true, "ByteCode": true, "ABI": true, "Code": true, "Args": true, "IsValidFormat": true, "Cmd": true,
		"GetHeader": true, "GetBlockNo": true, "GetBlocksRootHash": true, "GetState": true, "GetStorageRoot": true, "GetValue": true,
		"GetAmountBigInt": true, "GetBalanceBigInt": true, "GetCodeHash": true, "MarshalJSON": true, "Microseconds": true, "Sub": true,
		"IsEqual": true, "SerializeUncompressed": true, "Verify": true, "Decode": true, "UseNumber": true, "DisallowUnknownFields": true,
		"Unmarshal": true, "Float64": true, "GetBestBlock": true, "GetBlockByNo": true,
		"Fatal": true, "Printf": true, "Msgf": true, // loggers (sqlLgr, ctrLgr)
	},
	// writes to these fields are sinks
	FieldSinks: map[string]string{
		"events":           "mut",
		"eventCount":       "mut",
		"nestedView":       "view",
		"isQuery":          "query",
		"isView":           "viewset", // executor.isView: decides whether executor.call opens the view bracket
		"SqlRecoveryPoint": "mut",
		"Balance":          "mut",
		"Nonce":            "mut",
		"CodeHash":         "mut",
		"StorageRoot":      "mut",
		"State":            "mut",
		"StateDB":          "mut",
		"GasPrice":         "mut",
	},
	// bookkeeping fields of vmContext / executor / callState / recoveryPoint / contractInfo
	BenignFields: map[string]bool{
		"curContract": true, "lastRecoveryPoint": true, "dbUpdateTotalSize": true, "seed": true, "callDepth": true, "remainedGas": true,
		"traceFile": true, "service": true, "origin": true, "txHash": true, "blockInfo": true, "amount": true, "sender": true,
		"tx": true, "ctrState": true, "callState": true, "err": true, "preErr": true, "jsonRet": true, "fname": true,
		"isAutoload": true, "numArgs": true, "ci": true, "stateRevision": true, "sqlSaveName": true, "internalOpsCall": true,
	},
	BenignGlobals: map[string]bool{
		"currentForkVersion": true, "contexts": true, "lastQueryIndex": true, "multicall_compiled": true, "maxContext": true,
		"logInternalOperations": true, "ctrLgr": true, "mulAergo": true, "mulGaer": true, "zeroBig": true,
		"nextOpId":  true, // internal_operations.go: id counter of the in-memory operation log
		"queryConn": true, // statesql.go: the *SQLiteConn of the connection the query driver opened last (ConnectHook)
	},
	RestoreFns: map[string]bool{
		"luaDropEvent": true, // truncates ctx.events back to the count recorded when the enclosing pcall started
	},
	// C functions that run Lua code (vm.c): lua_pcall inside
	ReenterC:     map[string]bool{"vm_pcall": true, "vm_loadcall": true},
	QueryEntries: map[string]bool{"Query": true, "CheckFeeDelegation": true},
	CtxBuilders:  map[string]bool{"NewVmContextQuery": true, "NewVmContext": true},
	ErrCtors: map[string]bool{"C.CString": true, "errors.New": true, "fmt.Errorf": true, "newVmError": true, "newVmSystemError": true,
		"newDbSystemError": true},
	SQLExecMethods: map[string]bool{"sql.Conn.ExecContext": true, "sql.Tx.Exec": true, "sql.Tx.ExecContext": true, "sql.DB.Exec": true,
		"sql.DB.ExecContext": true},
	SQLPrefixes: [][2]string{
		{"pragma branch=", "txctl"},       // litetree: selects the commit this connection reads from (snapshotView); no data changes
		{"pragma branch_truncate", "mut"}, // litetree: drops commits
		{"release savepoint", "txctl"},
		{"rollback to savepoint", "restore"},
		{"savepoint", "txctl"}, // a savepoint by itself changes no data
		{"begin", "txctl"},
		{"create table", "mutQ"},
	},
	// Functions whose control flow depends on a read-only flag in a way that is not "return an error":
	// their bodies start with an `exempt` event, theorem refuse_exemptions pins the list.
	RefuseExempt: map[string]string{
		"luaSetRecoveryPoint": "internal callback of the pcall wrappers: in a read-only context it creates no recovery point and returns sequence number 0 without an error",
		"luaGetDbHandle":      "opens the SQL handle: read-only connection (beginReadOnly) under isQuery, writable transaction otherwise; the refusal of writes is SQLite's (query_only) resp. luaCheckView in db_module.c",
		"LuaGetDbHandleSnap":  "db snapshot selection is permitted only in a query (the test is `!isQuery => error`)",
		"setRandomSeed":       "seeds the per-context PRNG from the block time stamp in a query and from previous block hash + tx hash otherwise",
	},
	// internal_operations.go: the in-memory operation log hanging off vmContext.internalOpsCall
	TypedBenign: map[string]bool{
		"InternalCall.Operations": true, "InternalCall.Contract": true, "InternalCall.Function": true, "InternalCall.Args": true,
		"InternalCall.Amount": true, "InternalOperation.Result": true, "InternalOperation.Reverted": true, "InternalOperation.Call": true,
	},
	ExtResults: map[string][]string{"sql.Open": {"*sql.DB", "error"}, "sql.DB.Conn": {"*sql.Conn", "error"},
		"sql.Conn.BeginTx": {"*sql.Tx", "error"}},
	Assume: []HAssume{
		{Fn: "luaSendAmount",
			AnyOf: []string{"amountBig.Cmp(zeroBig) > 0", "amountBig.Cmp(zeroBig) == 0"},
			Why: "the amount is not negative: transformAmount rejects negative amounts in parseAndConvert (every fork version) and, for the " +
				"decimal \"x.y aergo\" form, only from fork version 5 on. With fork version 4 a negative decimal amount passes the guard " +
				"`(isQuery || nestedView > 0) && amount > 0` and reaches state.SendBalance: FLAGGED in notes/C20.md"},
	},
}

// hostExtDirs: state-bearing packages parsed for receiver typing and for the API inventory.
func hostExtDirs(repo string) map[string]string {
	return map[string]string{"state": repo + "/state", "statedb": repo + "/state/statedb"}
}

// Callbacks that contract code must not be able to call with arguments of its choice: only the C glue calls
// them (pcall wrappers, LuaJIT view bracket hooks).  Their C callers are emitted as `cInternalCallers`.
var hostInternalCallbacks = map[string]bool{"luaClearRecovery": true, "luaDropEvent": true, "luaSetRecoveryPoint": true,
	"luaViewStart": true, "luaViewEnd": true}

// hostFiles: the analysed files of /repo/contract.
var hostFiles = []string{"vm.go", "vm_callback.go", "vm_state.go", "statesql.go", "internal_operations.go"}

// State-bearing types whose whole method set must be classified (inventory theorem `state_api_classified`).
var hostStateTypes = map[string][]string{
	"state":   {"AccountState", "BlockState"},
	"statedb": {"ContractState", "StateDB", "ChainStateDB"},
}
