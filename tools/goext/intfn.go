package main

import (
	"flag"
	"fmt"
	"go/ast"
	"go/parser"
	"go/token"
	"math/big"
	"os"
	"sort"
	"strings"
)

// Integer-function translator. Subset: functions/methods whose body is a sequence of
//   x := e | x = e | var x T = e | if c { ...return } [else {...}] | return e
// over integer/boolean expressions: literals, identifiers, receiver fields (s.f),
// package-level variables and constants, + - * / % (Go truncating semantics ->
// Int.tdiv / Int.tmod), comparisons, && || !, integer conversions (identity on Int:
// range is the theorems' hypothesis), calls to other functions in the requested set.
// Package-level *variables* become explicit leading parameters of every generated
// definition that (transitively) uses them; constants are emitted as defs.

type fnInfo struct {
	name   string // Lean name
	decl   *ast.FuncDecl
	recv   string   // receiver identifier, "" if none
	fields []string // receiver fields used (become parameters recv_field)
	gvars  []string // package-level vars used transitively
	bool   bool     // returns bool
}

type intfnCtx struct {
	fset   *token.FileSet
	consts map[string]ast.Expr
	subst  map[string]string // inlined single-assignment locals of the function being translated
	gvars  map[string]bool
	fns    map[string]*fnInfo // key: Go name or Recv.Method
	order  []string
}

func cmdIntFn(args []string) error {
	fs := flag.NewFlagSet("intfn", flag.ContinueOnError)
	ns := fs.String("ns", "Gen", "Lean namespace")
	out := fs.String("o", "", "output file")
	if err := fs.Parse(args); err != nil {
		return err
	}
	rest := fs.Args()
	if len(rest) < 2 {
		return fmt.Errorf("intfn: need file and function names")
	}
	files := []string{}
	names := []string{}
	for _, a := range rest {
		if strings.HasSuffix(a, ".go") {
			files = append(files, a)
		} else {
			names = append(names, a)
		}
	}
	ctx := &intfnCtx{fset: token.NewFileSet(), consts: map[string]ast.Expr{}, gvars: map[string]bool{}, fns: map[string]*fnInfo{}}
	var decls []*ast.FuncDecl
	for _, f := range files {
		af, err := parser.ParseFile(ctx.fset, f, nil, parser.SkipObjectResolution)
		if err != nil {
			return err
		}
		for _, d := range af.Decls {
			switch d := d.(type) {
			case *ast.GenDecl:
				for _, sp := range d.Specs {
					vs, ok := sp.(*ast.ValueSpec)
					if !ok {
						continue
					}
					for i, n := range vs.Names {
						if d.Tok == token.CONST && i < len(vs.Values) {
							ctx.consts[n.Name] = vs.Values[i]
						} else if d.Tok == token.VAR {
							ctx.gvars[n.Name] = true
						}
					}
				}
			case *ast.FuncDecl:
				decls = append(decls, d)
			}
		}
	}
	for _, want := range names {
		var found *ast.FuncDecl
		for _, d := range decls {
			if goFnKey(d) == want {
				found = d
			}
		}
		if found == nil {
			return fmt.Errorf("intfn: function %s not found in %v (the tie to the source is broken)", want, files)
		}
		fi := &fnInfo{name: strings.ReplaceAll(want, ".", "_"), decl: found}
		if found.Recv != nil && len(found.Recv.List) == 1 && len(found.Recv.List[0].Names) == 1 {
			fi.recv = found.Recv.List[0].Names[0].Name
		}
		ctx.fns[want] = fi
		ctx.order = append(ctx.order, want)
	}
	// collect direct uses, then close transitively
	direct := map[string]map[string]bool{}
	calls := map[string]map[string]bool{}
	for k, fi := range ctx.fns {
		direct[k] = map[string]bool{}
		calls[k] = map[string]bool{}
		fset := map[string]bool{}
		locals := map[string]bool{}
		for _, p := range fi.decl.Type.Params.List {
			for _, n := range p.Names {
				locals[n.Name] = true
			}
		}
		ast.Inspect(fi.decl.Body, func(n ast.Node) bool {
			switch n := n.(type) {
			case *ast.AssignStmt:
				if n.Tok == token.DEFINE {
					for _, l := range n.Lhs {
						if id, ok := l.(*ast.Ident); ok {
							locals[id.Name] = true
						}
					}
				}
			case *ast.SelectorExpr:
				if id, ok := n.X.(*ast.Ident); ok && id.Name == fi.recv && fi.recv != "" {
					fset[n.Sel.Name] = true
					return false
				}
			case *ast.CallExpr:
				if key := ctx.callKey(fi, n); key != "" {
					calls[k][key] = true
				}
			case *ast.Ident:
				if ctx.gvars[n.Name] && !locals[n.Name] {
					direct[k][n.Name] = true
				}
			}
			return true
		})
		for f := range fset {
			// a method call s.M() on the receiver is not a field
			if _, isM := ctx.fns[recvTypeName(fi.decl)+"."+f]; !isM {
				fi.fields = append(fi.fields, f)
			}
		}
		sort.Strings(fi.fields)
		if fi.decl.Type.Results != nil && len(fi.decl.Type.Results.List) == 1 {
			if id, ok := fi.decl.Type.Results.List[0].Type.(*ast.Ident); ok && id.Name == "bool" {
				fi.bool = true
			}
		}
	}
	for changed := true; changed; {
		changed = false
		for k := range ctx.fns {
			for c := range calls[k] {
				for g := range direct[c] {
					if !direct[k][g] {
						direct[k][g] = true
						changed = true
					}
				}
			}
		}
	}
	for changed := true; changed; {
		changed = false
		for k, fi := range ctx.fns {
			for c := range calls[k] {
				cf := ctx.fns[c]
				if cf.recv == "" || recvTypeName(cf.decl) != recvTypeName(fi.decl) {
					continue
				}
				for _, f := range cf.fields {
					has := false
					for _, g := range fi.fields {
						has = has || g == f
					}
					if !has {
						fi.fields = append(fi.fields, f)
						sort.Strings(fi.fields)
						changed = true
					}
				}
			}
		}
	}
	for k, fi := range ctx.fns {
		for g := range direct[k] {
			fi.gvars = append(fi.gvars, g)
		}
		sort.Strings(fi.gvars)
	}
	// emit in dependency order
	var b strings.Builder
	fmt.Fprintf(&b, "-- GENERATED by /verif/tools/goext intfn from %s. Do not edit.\n", strings.Join(files, " "))
	fmt.Fprintf(&b, "namespace %s\n\n", *ns)
	cnames := []string{}
	for c := range ctx.consts {
		cnames = append(cnames, c)
	}
	sort.Strings(cnames)
	emitted := map[string]bool{}
	var emit func(k string) error
	emit = func(k string) error {
		if emitted[k] {
			return nil
		}
		emitted[k] = true
		deps := []string{}
		for c := range calls[k] {
			deps = append(deps, c)
		}
		sort.Strings(deps)
		for _, c := range deps {
			if c != k {
				if err := emit(c); err != nil {
					return err
				}
			}
		}
		fi := ctx.fns[k]
		s, err := ctx.emitFn(fi)
		if err != nil {
			return fmt.Errorf("%s: %v", k, err)
		}
		b.WriteString(s)
		return nil
	}
	for _, k := range ctx.order {
		if err := emit(k); err != nil {
			return err
		}
	}
	fmt.Fprintf(&b, "end %s\n", *ns)
	if *out == "" {
		fmt.Print(b.String())
		return nil
	}
	return os.WriteFile(*out, []byte(b.String()), 0o644)
}

func recvTypeName(d *ast.FuncDecl) string {
	if d.Recv == nil || len(d.Recv.List) == 0 {
		return ""
	}
	t := d.Recv.List[0].Type
	if st, ok := t.(*ast.StarExpr); ok {
		t = st.X
	}
	if id, ok := t.(*ast.Ident); ok {
		return id.Name
	}
	return ""
}

func goFnKey(d *ast.FuncDecl) string {
	if r := recvTypeName(d); r != "" {
		return r + "." + d.Name.Name
	}
	return d.Name.Name
}

func (c *intfnCtx) callKey(fi *fnInfo, call *ast.CallExpr) string {
	switch f := call.Fun.(type) {
	case *ast.Ident:
		if _, ok := c.fns[f.Name]; ok {
			return f.Name
		}
	case *ast.SelectorExpr:
		if id, ok := f.X.(*ast.Ident); ok && fi.recv != "" && id.Name == fi.recv {
			k := recvTypeName(fi.decl) + "." + f.Sel.Name
			if _, ok := c.fns[k]; ok {
				return k
			}
		}
	}
	return ""
}

var intTypes = map[string]bool{"int": true, "int8": true, "int16": true, "int32": true, "int64": true,
	"uint": true, "uint8": true, "uint16": true, "uint32": true, "uint64": true, "byte": true}

func (c *intfnCtx) emitFn(fi *fnInfo) (string, error) {
	var b strings.Builder
	params := []string{}
	for _, g := range fi.gvars {
		params = append(params, fmt.Sprintf("(%s : Int)", g))
	}
	for _, f := range fi.fields {
		params = append(params, fmt.Sprintf("(%s_%s : Int)", fi.recv, f))
	}
	for _, p := range fi.decl.Type.Params.List {
		ty := "Int"
		if id, ok := p.Type.(*ast.Ident); ok && id.Name == "bool" {
			ty = "Bool"
		}
		for _, n := range p.Names {
			params = append(params, fmt.Sprintf("(%s : %s)", n.Name, ty))
		}
	}
	ret := "Int"
	if fi.bool {
		ret = "Bool"
	}
	pos := c.fset.Position(fi.decl.Pos())
	fmt.Fprintf(&b, "/-- Go: `%s` (%s:%d) -/\n", goFnKey(fi.decl), shortPath(pos.Filename), pos.Line)
	fmt.Fprintf(&b, "def %s %s : %s :=\n", fi.name, strings.Join(params, " "), ret)
	body, err := c.stmts(fi, fi.decl.Body.List, 1)
	if err != nil {
		return "", err
	}
	b.WriteString(body)
	b.WriteString("\n\n")
	return b.String(), nil
}

func shortPath(p string) string {
	if i := strings.Index(p, "/repo/"); i >= 0 {
		return p[i+6:]
	}
	return p
}

func ind(n int) string { return strings.Repeat("  ", n) }

func (c *intfnCtx) stmts(fi *fnInfo, list []ast.Stmt, d int) (string, error) {
	if len(list) == 0 {
		return "", fmt.Errorf("function may fall through without return (unsupported)")
	}
	s := list[0]
	rest := list[1:]
	switch s := s.(type) {
	case *ast.ReturnStmt:
		if len(s.Results) != 1 {
			return "", fmt.Errorf("return with %d results", len(s.Results))
		}
		e, err := c.expr(fi, s.Results[0])
		if err != nil {
			return "", err
		}
		return ind(d) + e, nil
	case *ast.AssignStmt:
		if len(s.Lhs) != 1 || len(s.Rhs) != 1 {
			return "", fmt.Errorf("multi-assign unsupported")
		}
		id, ok := s.Lhs[0].(*ast.Ident)
		if !ok {
			return "", fmt.Errorf("assignment to non-identifier")
		}
		e, err := c.expr(fi, s.Rhs[0])
		if err != nil {
			return "", err
		}
		switch s.Tok {
		case token.ADD_ASSIGN:
			e = fmt.Sprintf("(%s + %s)", id.Name, e)
		case token.SUB_ASSIGN:
			e = fmt.Sprintf("(%s - %s)", id.Name, e)
		case token.DEFINE, token.ASSIGN:
		default:
			return "", fmt.Errorf("assign op %s unsupported", s.Tok)
		}
		// a named intermediate that is never assigned again is inlined (the subset is pure), so that
		// `return (ms - 1) / iv` and `lastMs := ms - 1; return lastMs / iv` give the same definition
		if s.Tok == token.DEFINE && !assignedIn(rest, id.Name) {
			if c.subst == nil {
				c.subst = map[string]string{}
			}
			old, had := c.subst[id.Name]
			c.subst[id.Name] = e
			r, err := c.stmts(fi, rest, d)
			if had {
				c.subst[id.Name] = old
			} else {
				delete(c.subst, id.Name)
			}
			return r, err
		}
		r, err := c.stmts(fi, rest, d)
		if err != nil {
			return "", err
		}
		return fmt.Sprintf("%slet %s := %s\n%s", ind(d), id.Name, e, r), nil
	case *ast.IfStmt:
		if s.Init != nil {
			return "", fmt.Errorf("if with init unsupported")
		}
		cond, err := c.expr(fi, s.Cond)
		if err != nil {
			return "", err
		}
		if !endsInReturn(s.Body.List) {
			return "", fmt.Errorf("if-body must end in return")
		}
		th, err := c.stmts(fi, s.Body.List, d+1)
		if err != nil {
			return "", err
		}
		var elseList []ast.Stmt
		switch e := s.Else.(type) {
		case nil:
			elseList = rest
		case *ast.BlockStmt:
			elseList = append(append([]ast.Stmt{}, e.List...), rest...)
		case *ast.IfStmt:
			elseList = append([]ast.Stmt{e}, rest...)
		}
		el, err := c.stmts(fi, elseList, d+1)
		if err != nil {
			return "", err
		}
		return fmt.Sprintf("%sif %s then\n%s\n%selse\n%s", ind(d), cond, th, ind(d), el), nil
	case *ast.ExprStmt:
		// a pure logging statement (`logger.Debug()....Msg(…)`) does not change what is returned: skipped
		if isLoggerCall(s.X) {
			return c.stmts(fi, rest, d)
		}
	case *ast.DeclStmt:
		gd, ok := s.Decl.(*ast.GenDecl)
		if !ok || len(gd.Specs) != 1 {
			return "", fmt.Errorf("decl unsupported")
		}
		vs := gd.Specs[0].(*ast.ValueSpec)
		if len(vs.Names) != 1 {
			return "", fmt.Errorf("decl unsupported")
		}
		e := "0"
		if len(vs.Values) == 1 {
			var err error
			if e, err = c.expr(fi, vs.Values[0]); err != nil {
				return "", err
			}
		}
		r, err := c.stmts(fi, rest, d)
		if err != nil {
			return "", err
		}
		return fmt.Sprintf("%slet %s := %s\n%s", ind(d), vs.Names[0].Name, e, r), nil
	}
	return "", fmt.Errorf("statement %T unsupported at %s", s, c.fset.Position(s.Pos()))
}

// isLoggerCall: a call chain rooted at the package-level identifier `logger` (zerolog style).
func isLoggerCall(e ast.Expr) bool {
	for {
		switch x := e.(type) {
		case *ast.CallExpr:
			e = x.Fun
		case *ast.SelectorExpr:
			e = x.X
		case *ast.Ident:
			return x.Name == "logger"
		default:
			return false
		}
	}
}

// named integer types of /repo whose conversion is the identity on Int (range is the theorems' hypothesis)
var namedIntTypes = map[string]bool{"types.BlockNo": true, "bp.Index": true, "Index": true, "BlockNo": true}

func endsInReturn(l []ast.Stmt) bool {
	if len(l) == 0 {
		return false
	}
	switch s := l[len(l)-1].(type) {
	case *ast.ReturnStmt:
		return true
	case *ast.IfStmt:
		if s.Else == nil {
			return false
		}
		if !endsInReturn(s.Body.List) {
			return false
		}
		switch e := s.Else.(type) {
		case *ast.BlockStmt:
			return endsInReturn(e.List)
		case *ast.IfStmt:
			return endsInReturn([]ast.Stmt{e})
		}
	}
	return false
}

func (c *intfnCtx) expr(fi *fnInfo, e ast.Expr) (string, error) {
	switch e := e.(type) {
	case *ast.ParenExpr:
		return c.expr(fi, e.X)
	case *ast.BasicLit:
		if e.Kind == token.INT {
			return strings.ReplaceAll(e.Value, "_", ""), nil
		}
		return "", fmt.Errorf("literal %s unsupported", e.Value)
	case *ast.Ident:
		switch e.Name {
		case "true", "false":
			return e.Name, nil
		}
		if v, ok := c.subst[e.Name]; ok {
			return v, nil
		}
		if v, ok := c.consts[e.Name]; ok {
			return c.expr(fi, v)
		}
		return e.Name, nil
	case *ast.SelectorExpr:
		if id, ok := e.X.(*ast.Ident); ok && id.Name == fi.recv && fi.recv != "" {
			return fi.recv + "_" + e.Sel.Name, nil
		}
		if id, ok := e.X.(*ast.Ident); ok && id.Name == "time" {
			if v, ok := map[string]string{"Nanosecond": "1", "Microsecond": "1000", "Millisecond": "1000000", "Second": "1000000000",
				"Minute": "60000000000", "Hour": "3600000000000"}[e.Sel.Name]; ok {
				return v, nil
			}
		}
		if id, ok := e.X.(*ast.Ident); ok && id.Name == "math" {
			switch e.Sel.Name {
			case "MaxUint16":
				return "65535", nil
			case "MaxInt64":
				return "9223372036854775807", nil
			case "MaxUint64":
				return "18446744073709551615", nil
			}
		}
		return "", fmt.Errorf("selector %s unsupported", exprString(e))
	case *ast.UnaryExpr:
		x, err := c.expr(fi, e.X)
		if err != nil {
			return "", err
		}
		switch e.Op {
		case token.SUB:
			return "(-" + x + ")", nil
		case token.NOT:
			return "(!" + x + ")", nil
		}
		return "", fmt.Errorf("unary %s unsupported", e.Op)
	case *ast.BinaryExpr:
		x, err := c.expr(fi, e.X)
		if err != nil {
			return "", err
		}
		y, err := c.expr(fi, e.Y)
		if err != nil {
			return "", err
		}
		// constant folding (Go semantics: truncating / and %), so that `1000000` and
		// `int64(time.Millisecond / time.Nanosecond)` give the same generated literal
		if a, ok := genIntLit(x); ok {
			if b, ok := genIntLit(y); ok {
				r := new(big.Int)
				done := true
				switch e.Op {
				case token.ADD:
					r.Add(a, b)
				case token.SUB:
					r.Sub(a, b)
				case token.MUL:
					r.Mul(a, b)
				case token.QUO:
					if b.Sign() == 0 {
						done = false
					} else {
						r.Quo(a, b)
					}
				case token.REM:
					if b.Sign() == 0 {
						done = false
					} else {
						r.Rem(a, b)
					}
				default:
					done = false
				}
				if done {
					if r.Sign() < 0 {
						return "(" + r.String() + ")", nil
					}
					return r.String(), nil
				}
			}
		}
		switch e.Op {
		case token.ADD, token.SUB, token.MUL:
			return fmt.Sprintf("(%s %s %s)", x, e.Op, y), nil
		case token.QUO:
			return fmt.Sprintf("(Int.tdiv %s %s)", x, y), nil
		case token.REM:
			return fmt.Sprintf("(Int.tmod %s %s)", x, y), nil
		case token.EQL:
			return fmt.Sprintf("(%s == %s)", x, y), nil
		case token.NEQ:
			return fmt.Sprintf("(%s != %s)", x, y), nil
		case token.LSS, token.LEQ, token.GTR, token.GEQ:
			return fmt.Sprintf("(decide (%s %s %s))", x, map[token.Token]string{token.LSS: "<", token.LEQ: "≤", token.GTR: ">", token.GEQ: "≥"}[e.Op], y), nil
		case token.LAND:
			return fmt.Sprintf("(%s && %s)", x, y), nil
		case token.LOR:
			return fmt.Sprintf("(%s || %s)", x, y), nil
		}
		return "", fmt.Errorf("binary %s unsupported", e.Op)
	case *ast.CallExpr:
		// integer conversion
		if id, ok := e.Fun.(*ast.Ident); ok && intTypes[id.Name] && len(e.Args) == 1 {
			return c.expr(fi, e.Args[0])
		}
		if len(e.Args) == 1 && namedIntTypes[exprString(e.Fun)] && c.callKey(fi, e) == "" {
			return c.expr(fi, e.Args[0])
		}
		key := c.callKey(fi, e)
		if key == "" {
			return "", fmt.Errorf("call %s unsupported (not in the translated set)", exprString(e.Fun))
		}
		callee := c.fns[key]
		args := []string{}
		for _, g := range callee.gvars {
			args = append(args, g)
		}
		for _, f := range callee.fields {
			args = append(args, fi.recv+"_"+f)
		}
		for _, a := range e.Args {
			x, err := c.expr(fi, a)
			if err != nil {
				return "", err
			}
			args = append(args, x)
		}
		return "(" + callee.name + " " + strings.Join(args, " ") + ")", nil
	}
	return "", fmt.Errorf("expression %T unsupported at %s", e, c.fset.Position(e.Pos()))
}

// assignedIn reports whether name is assigned (=, :=, op=, ++, --) anywhere in stmts.
func assignedIn(stmts []ast.Stmt, name string) bool {
	found := false
	for _, st := range stmts {
		ast.Inspect(st, func(n ast.Node) bool {
			switch x := n.(type) {
			case *ast.AssignStmt:
				for _, l := range x.Lhs {
					if id, ok := l.(*ast.Ident); ok && id.Name == name {
						found = true
					}
				}
			case *ast.IncDecStmt:
				if id, ok := x.X.(*ast.Ident); ok && id.Name == name {
					found = true
				}
			}
			return true
		})
	}
	return found
}

// intLit parses a generated integer literal ("123", "(-5)").
func genIntLit(x string) (*big.Int, bool) {
	t := strings.TrimSpace(x)
	for strings.HasPrefix(t, "(") && strings.HasSuffix(t, ")") {
		t = strings.TrimSpace(t[1 : len(t)-1])
	}
	if t == "" {
		return nil, false
	}
	for i, ch := range t {
		if !(ch >= '0' && ch <= '9') && !(i == 0 && ch == '-' && len(t) > 1) {
			return nil, false
		}
	}
	v, ok := new(big.Int).SetString(t, 10)
	return v, ok
}

func exprString(e ast.Expr) string {
	switch e := e.(type) {
	case *ast.Ident:
		return e.Name
	case *ast.SelectorExpr:
		return exprString(e.X) + "." + e.Sel.Name
	case *ast.StarExpr:
		return "*" + exprString(e.X)
	case *ast.CallExpr:
		return exprString(e.Fun) + "(…)"
	case *ast.IndexExpr:
		return exprString(e.X) + "[…]"
	case *ast.BasicLit:
		return e.Value
	case *ast.ParenExpr:
		return "(" + exprString(e.X) + ")"
	case *ast.UnaryExpr:
		return e.Op.String() + exprString(e.X)
	case *ast.BinaryExpr:
		return exprString(e.X) + e.Op.String() + exprString(e.Y)
	case *ast.TypeAssertExpr:
		return exprString(e.X) + ".(T)"
	case *ast.SliceExpr:
		return exprString(e.X) + "[:]"
	case *ast.ArrayType:
		return "[]" + exprString(e.Elt)
	case *ast.CompositeLit:
		return "lit{}"
	case *ast.FuncLit:
		return "func{}"
	}
	return fmt.Sprintf("%T", e)
}
