package main

// goext libquorum -ns <Namespace> -o out.lean /repo/consensus/impl/dpos/lib.go /repo/consensus/impl/dpos/dpos.go
//
// Regenerates the integer formulas of the DPoS finality bookkeeping (C08) from the current source:
//
//   confirmsRequired bpCount      the closure `consensusBlockCount` inside (*libStatus).setConfirmsRequired
//   majorityCount blockProducers  the right-hand side of `majorityCount = …` in dpos.Init
//   libIndex n                    the index expression of `libInfos[…]` in (*libStatus).calcLIB, with
//                                 len(libInfos) as the parameter n
//   gcNumLimit cr                 the returned expression of libStatus.gcNumLimit
//   factoryConfirms no lpbNo      the argument of block.SetConfirms(…) in (*BlockFactory).generateBlock (blockfactory.go)
//   begRecoBlockNo cr libNo end   the body of (*libStatus).begRecoBlockNo (conditional re-assignments of one
//                                 local are emitted as `let x := if c then e else x`)
//
// Expressions go through the integer-expression translator of intfn.go (Go's truncating / and %),
// after three syntactic rewrites: receiver selector chains `ls.a.b` become the identifier `ls_a_b`,
// `types.BlockNo(e)` and other integer conversions become `e`, `len(x)` becomes the identifier `len_x`.
// Anything else (a loop, a call, another statement shape, a missing function) makes the command fail,
// so the tie is reported as broken instead of silently keeping an old definition.

import (
	"flag"
	"fmt"
	"go/ast"
	"go/parser"
	"go/token"
	"os"
	"strings"
)

func init() { register("libquorum", cmdLibQuorum) }

type lqCtx struct {
	ctx  *intfnCtx
	fi   *fnInfo
	recv string
}

// rewrite returns a copy of e with the three syntactic rewrites applied.
func (q *lqCtx) rewrite(e ast.Expr) (ast.Expr, error) {
	switch x := e.(type) {
	case *ast.ParenExpr:
		y, err := q.rewrite(x.X)
		if err != nil {
			return nil, err
		}
		return &ast.ParenExpr{X: y}, nil
	case *ast.BasicLit, *ast.Ident:
		return e, nil
	case *ast.SelectorExpr:
		parts := []string{}
		var cur ast.Expr = x
		for {
			switch c := cur.(type) {
			case *ast.SelectorExpr:
				parts = append([]string{c.Sel.Name}, parts...)
				cur = c.X
				continue
			case *ast.Ident:
				if q.recv == "" || c.Name != q.recv {
					return nil, fmt.Errorf("selector %s is not rooted at the receiver", exprString(x))
				}
				parts = append([]string{c.Name}, parts...)
				return &ast.Ident{Name: strings.Join(parts, "_"), NamePos: x.Pos()}, nil
			}
			return nil, fmt.Errorf("selector %s unsupported", exprString(x))
		}
	case *ast.UnaryExpr:
		y, err := q.rewrite(x.X)
		if err != nil {
			return nil, err
		}
		return &ast.UnaryExpr{Op: x.Op, X: y, OpPos: x.OpPos}, nil
	case *ast.BinaryExpr:
		a, err := q.rewrite(x.X)
		if err != nil {
			return nil, err
		}
		b, err := q.rewrite(x.Y)
		if err != nil {
			return nil, err
		}
		return &ast.BinaryExpr{X: a, Op: x.Op, Y: b, OpPos: x.OpPos}, nil
	case *ast.CallExpr:
		if se, ok := x.Fun.(*ast.SelectorExpr); ok && len(x.Args) == 0 && se.Sel.Name == "BlockNo" {
			if id, ok := se.X.(*ast.Ident); ok {
				return &ast.Ident{Name: id.Name + "_BlockNo", NamePos: x.Pos()}, nil
			}
		}
		if len(x.Args) != 1 {
			return nil, fmt.Errorf("call %s unsupported", exprString(x.Fun))
		}
		if id, ok := x.Fun.(*ast.Ident); ok {
			if intTypes[id.Name] {
				return q.rewrite(x.Args[0])
			}
			if id.Name == "len" {
				if a, ok := x.Args[0].(*ast.Ident); ok {
					return &ast.Ident{Name: "len_" + a.Name, NamePos: x.Pos()}, nil
				}
			}
		}
		if se, ok := x.Fun.(*ast.SelectorExpr); ok {
			if p, ok := se.X.(*ast.Ident); ok && p.Name == "types" && se.Sel.Name == "BlockNo" {
				return q.rewrite(x.Args[0])
			}
		}
		return nil, fmt.Errorf("call %s unsupported", exprString(x.Fun))
	}
	return nil, fmt.Errorf("expression %T unsupported", e)
}

func (q *lqCtx) expr(e ast.Expr) (string, error) {
	r, err := q.rewrite(e)
	if err != nil {
		return "", err
	}
	return q.ctx.expr(q.fi, r)
}

// assignOf: `x = e`, `x := e`, `x -= e`, `x += e` -> (x, Lean expression)
func (q *lqCtx) assignOf(s ast.Stmt) (string, string, error) {
	as, ok := s.(*ast.AssignStmt)
	if !ok || len(as.Lhs) != 1 || len(as.Rhs) != 1 {
		return "", "", fmt.Errorf("statement %T is not a single assignment", s)
	}
	id, ok := as.Lhs[0].(*ast.Ident)
	if !ok {
		return "", "", fmt.Errorf("assignment to a non-identifier")
	}
	e, err := q.expr(as.Rhs[0])
	if err != nil {
		return "", "", err
	}
	switch as.Tok {
	case token.DEFINE, token.ASSIGN:
	case token.SUB_ASSIGN:
		e = fmt.Sprintf("(%s - %s)", id.Name, e)
	case token.ADD_ASSIGN:
		e = fmt.Sprintf("(%s + %s)", id.Name, e)
	default:
		return "", "", fmt.Errorf("assignment operator %s unsupported", as.Tok)
	}
	return id.Name, e, nil
}

// body translates: assignments, `if c { x = e }`, `if c { x op= e } else { x = e' }`, final `return e`.
func (q *lqCtx) body(list []ast.Stmt) (string, error) {
	var b strings.Builder
	for i, s := range list {
		switch st := s.(type) {
		case *ast.ReturnStmt:
			if i != len(list)-1 || len(st.Results) != 1 {
				return "", fmt.Errorf("return must be the last statement and have one result")
			}
			e, err := q.expr(st.Results[0])
			if err != nil {
				return "", err
			}
			b.WriteString("  " + e)
			return b.String(), nil
		case *ast.AssignStmt:
			x, e, err := q.assignOf(st)
			if err != nil {
				return "", err
			}
			fmt.Fprintf(&b, "  let %s := %s\n", x, e)
		case *ast.IfStmt:
			if st.Init != nil || len(st.Body.List) != 1 {
				return "", fmt.Errorf("if statement shape unsupported")
			}
			c, err := q.expr(st.Cond)
			if err != nil {
				return "", err
			}
			x, e1, err := q.assignOf(st.Body.List[0])
			if err != nil {
				return "", err
			}
			e2 := x
			if st.Else != nil {
				eb, ok := st.Else.(*ast.BlockStmt)
				if !ok || len(eb.List) != 1 {
					return "", fmt.Errorf("else branch shape unsupported")
				}
				y, e, err := q.assignOf(eb.List[0])
				if err != nil {
					return "", err
				}
				if y != x {
					return "", fmt.Errorf("if/else assign different variables")
				}
				e2 = e
			}
			fmt.Fprintf(&b, "  let %s := if %s then %s else %s\n", x, c, e1, e2)
		default:
			if es, ok := s.(*ast.ExprStmt); ok && rootIdent(es.X) == "logger" {
				continue
			}
			return "", fmt.Errorf("statement %T unsupported", s)
		}
	}
	return "", fmt.Errorf("function falls through without return")
}

func lqFind(files []*ast.File, key string) *ast.FuncDecl {
	for _, af := range files {
		for _, d := range af.Decls {
			if fd, ok := d.(*ast.FuncDecl); ok && goFnKey(fd) == key {
				return fd
			}
		}
	}
	return nil
}

func lqRecv(fd *ast.FuncDecl) string {
	if fd.Recv != nil && len(fd.Recv.List) == 1 && len(fd.Recv.List[0].Names) == 1 {
		return fd.Recv.List[0].Names[0].Name
	}
	return ""
}

func cmdLibQuorum(args []string) error {
	fs := flag.NewFlagSet("libquorum", flag.ContinueOnError)
	ns := fs.String("ns", "Aergo.Gen.LibQuorum", "Lean namespace")
	out := fs.String("o", "", "output file")
	if err := fs.Parse(args); err != nil {
		return err
	}
	if len(fs.Args()) == 0 {
		return fmt.Errorf("libquorum: need lib.go and dpos.go")
	}
	ctx := &intfnCtx{fset: token.NewFileSet(), consts: map[string]ast.Expr{}, gvars: map[string]bool{}, fns: map[string]*fnInfo{}}
	var files []*ast.File
	for _, f := range fs.Args() {
		af, err := parser.ParseFile(ctx.fset, f, nil, parser.SkipObjectResolution)
		if err != nil {
			return err
		}
		files = append(files, af)
	}
	need := func(key string) (*ast.FuncDecl, error) {
		fd := lqFind(files, key)
		if fd == nil || fd.Body == nil {
			return nil, fmt.Errorf("libquorum: %s not found (the tie to the source is broken)", key)
		}
		return fd, nil
	}
	var b strings.Builder
	fmt.Fprintf(&b, "-- GENERATED by /verif/tools/goext libquorum from consensus/impl/dpos/lib.go, dpos.go. Do not edit.\n")
	fmt.Fprintf(&b, "namespace %s\n\n", *ns)
	emit := func(name, goName string, pos token.Pos, params []string, body string) {
		p := ctx.fset.Position(pos)
		fmt.Fprintf(&b, "/-- Go: `%s` (%s:%d) -/\n", goName, shortPath(p.Filename), p.Line)
		ps := []string{}
		for _, x := range params {
			ps = append(ps, fmt.Sprintf("(%s : Int)", x))
		}
		fmt.Fprintf(&b, "def %s %s : Int :=\n%s\n\n", name, strings.Join(ps, " "), body)
	}

	// 1. setConfirmsRequired: the closure consensusBlockCount, and the assignment ls.confirmsRequired = consensusBlockCount(bpCount)
	fd, err := need("libStatus.setConfirmsRequired")
	if err != nil {
		return err
	}
	var lit *ast.FuncLit
	applied := false
	for _, st := range fd.Body.List {
		as, ok := st.(*ast.AssignStmt)
		if !ok || len(as.Lhs) != 1 || len(as.Rhs) != 1 {
			return fmt.Errorf("libquorum: setConfirmsRequired has an unexpected statement %T", st)
		}
		if l, ok := as.Rhs[0].(*ast.FuncLit); ok {
			if id, ok := as.Lhs[0].(*ast.Ident); !ok || id.Name != "consensusBlockCount" || lit != nil {
				return fmt.Errorf("libquorum: setConfirmsRequired: unexpected closure")
			}
			lit = l
			continue
		}
		// ls.confirmsRequired = consensusBlockCount(bpCount)
		se, ok := as.Lhs[0].(*ast.SelectorExpr)
		call, ok2 := as.Rhs[0].(*ast.CallExpr)
		if !ok || !ok2 || se.Sel.Name != "confirmsRequired" || len(call.Args) != 1 {
			return fmt.Errorf("libquorum: setConfirmsRequired: unexpected assignment")
		}
		fid, ok := call.Fun.(*ast.Ident)
		aid, ok2 := call.Args[0].(*ast.Ident)
		if !ok || !ok2 || fid.Name != "consensusBlockCount" || len(fd.Type.Params.List) != 1 || aid.Name != fd.Type.Params.List[0].Names[0].Name {
			return fmt.Errorf("libquorum: setConfirmsRequired does not assign consensusBlockCount(<its parameter>)")
		}
		applied = true
	}
	if lit == nil || !applied {
		return fmt.Errorf("libquorum: setConfirmsRequired: closure or its application not found")
	}
	if len(lit.Type.Params.List) != 1 || len(lit.Type.Params.List[0].Names) != 1 {
		return fmt.Errorf("libquorum: consensusBlockCount must have one parameter")
	}
	q := &lqCtx{ctx: ctx, fi: &fnInfo{name: "confirmsRequired"}}
	body, err := q.body(lit.Body.List)
	if err != nil {
		return fmt.Errorf("libquorum: consensusBlockCount: %v", err)
	}
	emit("confirmsRequired", "libStatus.setConfirmsRequired/consensusBlockCount", lit.Pos(), []string{lit.Type.Params.List[0].Names[0].Name}, body)

	// 2. dpos.Init: majorityCount = <expr over blockProducers>
	fd, err = need("Init")
	if err != nil {
		return err
	}
	var rhs ast.Expr
	bpAssigned := false
	for _, st := range fd.Body.List {
		as, ok := st.(*ast.AssignStmt)
		if !ok || len(as.Lhs) != 1 || len(as.Rhs) != 1 {
			continue
		}
		id, ok := as.Lhs[0].(*ast.Ident)
		if !ok {
			continue
		}
		if id.Name == "blockProducers" {
			if r, ok := as.Rhs[0].(*ast.Ident); ok && len(fd.Type.Params.List) == 1 && r.Name == fd.Type.Params.List[0].Names[0].Name {
				bpAssigned = true
			}
		}
		if id.Name == "majorityCount" {
			if rhs != nil {
				return fmt.Errorf("libquorum: Init assigns majorityCount twice")
			}
			rhs = as.Rhs[0]
		}
	}
	if rhs == nil || !bpAssigned {
		return fmt.Errorf("libquorum: Init: `blockProducers = <parameter>` / `majorityCount = …` not found")
	}
	q = &lqCtx{ctx: ctx, fi: &fnInfo{name: "majorityCount"}}
	e, err := q.expr(rhs)
	if err != nil {
		return fmt.Errorf("libquorum: majorityCount: %v", err)
	}
	emit("majorityCount", "Init/majorityCount", rhs.Pos(), []string{"blockProducers"}, "  "+e)

	// 3. calcLIB: the index of libInfos[…] in the final selection
	fd, err = need("libStatus.calcLIB")
	if err != nil {
		return err
	}
	var idx []*ast.IndexExpr
	ast.Inspect(fd.Body, func(n ast.Node) bool {
		if fl, ok := n.(*ast.FuncLit); ok {
			_ = fl
			return false // the sort comparator indexes by i, j
		}
		if ix, ok := n.(*ast.IndexExpr); ok {
			if id, ok := ix.X.(*ast.Ident); ok && id.Name == "libInfos" {
				idx = append(idx, ix)
			}
		}
		return true
	})
	if len(idx) != 1 {
		return fmt.Errorf("libquorum: calcLIB: expected exactly one libInfos[…] selection outside the comparator, found %d", len(idx))
	}
	q = &lqCtx{ctx: ctx, fi: &fnInfo{name: "libIndex"}}
	e, err = q.expr(idx[0].Index)
	if err != nil {
		return fmt.Errorf("libquorum: calcLIB index: %v", err)
	}
	emit("libIndex", "libStatus.calcLIB/index", idx[0].Pos(), []string{"len_libInfos"}, "  "+e)

	// 4. gcNumLimit
	fd, err = need("libStatus.gcNumLimit")
	if err != nil {
		return err
	}
	q = &lqCtx{ctx: ctx, fi: &fnInfo{name: "gcNumLimit"}, recv: lqRecv(fd)}
	body, err = q.body(fd.Body.List)
	if err != nil {
		return fmt.Errorf("libquorum: gcNumLimit: %v", err)
	}
	emit("gcNumLimit", "libStatus.gcNumLimit", fd.Pos(), []string{q.recv + "_confirmsRequired"}, body)

	// 5. begRecoBlockNo
	fd, err = need("libStatus.begRecoBlockNo")
	if err != nil {
		return err
	}
	q = &lqCtx{ctx: ctx, fi: &fnInfo{name: "begRecoBlockNo"}, recv: lqRecv(fd)}
	var stmts []ast.Stmt
	for _, st := range fd.Body.List {
		stmts = append(stmts, st)
	}
	body, err = q.body(stmts)
	if err != nil {
		return fmt.Errorf("libquorum: begRecoBlockNo: %v", err)
	}
	if len(fd.Type.Params.List) != 1 || len(fd.Type.Params.List[0].Names) != 1 {
		return fmt.Errorf("libquorum: begRecoBlockNo must have one parameter")
	}
	emit("begRecoBlockNo", "libStatus.begRecoBlockNo", fd.Pos(),
		[]string{q.recv + "_confirmsRequired", q.recv + "_Lib_BlockNo", fd.Type.Params.List[0].Names[0].Name}, body)

	// 6. blockfactory.go generateBlock: the argument of block.SetConfirms(…)
	fd, err = need("BlockFactory.generateBlock")
	if err != nil {
		return err
	}
	var setc []*ast.CallExpr
	ast.Inspect(fd.Body, func(n ast.Node) bool {
		if c, ok := n.(*ast.CallExpr); ok {
			if se, ok := c.Fun.(*ast.SelectorExpr); ok && se.Sel.Name == "SetConfirms" && len(c.Args) == 1 {
				setc = append(setc, c)
			}
		}
		return true
	})
	if len(setc) != 1 {
		return fmt.Errorf("libquorum: generateBlock: expected exactly one SetConfirms(…) call, found %d", len(setc))
	}
	q = &lqCtx{ctx: ctx, fi: &fnInfo{name: "factoryConfirms"}}
	e, err = q.expr(setc[0].Args[0])
	if err != nil {
		return fmt.Errorf("libquorum: SetConfirms argument: %v", err)
	}
	emit("factoryConfirms", "BlockFactory.generateBlock/SetConfirms", setc[0].Pos(), []string{"block_BlockNo", "lpbNo"}, "  "+e)

	// every identifier used must be a parameter or a local: Lean will reject anything else at build time.
	fmt.Fprintf(&b, "end %s\n", *ns)
	if *out == "" {
		fmt.Print(b.String())
		return nil
	}
	return os.WriteFile(*out, []byte(b.String()), 0o644)
}
