// goext: small go/ast translators and extractors that regenerate Lean model parts
// from /repo's current source. Standard library only.
//
//	goext intfn  -ns <Namespace> -o out.lean file.go Func1 Recv.Method2 ...   (integer functions)
//	goext fields -repo /repo -o out.lean                                      (digest field lists, struct inventories)
//	goext <other> ...   sub-commands register themselves in their own file: func init() { register("name", cmdName) }
package main

import (
	"fmt"
	"os"
	"sort"
)

var commands = map[string]func([]string) error{}

func register(name string, f func([]string) error) { commands[name] = f }

func init() {
	register("intfn", cmdIntFn)
	register("fields", cmdFields)
}

func main() {
	if len(os.Args) < 2 || commands[os.Args[1]] == nil {
		names := []string{}
		for k := range commands {
			names = append(names, k)
		}
		sort.Strings(names)
		fmt.Fprintln(os.Stderr, "usage: goext <command> ...; commands:", names)
		os.Exit(2)
	}
	if err := commands[os.Args[1]](os.Args[2:]); err != nil {
		fmt.Fprintln(os.Stderr, "goext:", err)
		os.Exit(1)
	}
}
