// goext: small go/ast translators and extractors that regenerate Lean model parts
// from /repo's current source. Standard library only.
//
//	goext intfn   -pkg <Namespace> -o out.lean file.go Func1 Recv.Method2 ...
//	goext fields  -o out.lean  (digest field lists, struct inventories)
//	goext sites   -o out.lean  (nondeterminism / unchecked-assertion inventories)
//	goext hostapi -o out.lean  (read-only guard IR of the VM host callbacks)
package main

import (
	"fmt"
	"os"
)

func main() {
	if len(os.Args) < 2 {
		fmt.Fprintln(os.Stderr, "usage: goext intfn|fields|sites|hostapi ...")
		os.Exit(2)
	}
	var err error
	switch os.Args[1] {
	case "intfn":
		err = cmdIntFn(os.Args[2:])
	case "fields":
		err = cmdFields(os.Args[2:])
	case "sites":
		err = cmdSites(os.Args[2:])
	case "hostapi":
		err = cmdHostAPI(os.Args[2:])
	default:
		err = fmt.Errorf("unknown command %q", os.Args[1])
	}
	if err != nil {
		fmt.Fprintln(os.Stderr, "goext:", err)
		os.Exit(1)
	}
}
