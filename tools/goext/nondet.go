package main

import (
	"crypto/sha256"
	"encoding/hex"
	"flag"
	"fmt"
	"go/ast"
	"go/parser"
	"go/printer"
	"go/token"
	"os"
	"path/filepath"
	"sort"
	"strings"
)

// Inventory of syntactic sources of nondeterminism in the consensus-critical packages (C02).
//
//	goext nondet -o out.lean -repo /repo [-ns Aergo.Gen.NondetSites] spec ...
//	spec = dir            every non-test .go file directly in the directory
//	     | dir/file.go    one file
//	     | dir/*.go       same as dir
//
// For every function (nested function literals included) it lists
//
//	maprange  for … := range X   where X resolves to a map type
//	range?    for … := range X   where the type of X could not be resolved (conservative: listed)
//	syncmap   X.Range(f)         a method call named Range (sync.Map.Range and look-alikes)
//	time      time.Now / time.Since / time.Until
//	rand      any use of an identifier of package math/rand or crypto/rand
//	go        a go statement
//	select    a select statement
//	sort      sort.Slice/Sort/Stable/SliceStable/Strings/Ints/… and slices.Sort*: the result depends on the order of
//	          the input unless the key is total (an unstable sort of tied elements is algorithm dependent)
//	ctxpoll   X.Err() / X.Deadline() with X a context.Context (ctxpoll? when the type of X is unknown): the answer
//	          depends on the wall clock although no select and no time.Now is written
//	env       os.Getenv/LookupEnv/Environ/Hostname/Getpid/Getwd, runtime.NumCPU/GOMAXPROCS/NumGoroutine: node-local inputs
//	mapkeys   X.MapRange() / X.MapKeys() (package reflect), maps.Keys / maps.Values: map order without a range statement
//	ptrfmt    a format string containing %p handed to a …f function: an address in a string
//
// as a key `file:func:kind:text[#n]` (no line numbers: unrelated edits do not move keys; `#n` is
// appended to the n-th repetition, n ≥ 1, of a key inside one function).  A `range` whose operand
// resolves to a slice, array, string, channel, integer or function is *not* listed.
//
// There is no go/types here (the module's dependency graph cannot be loaded by go/packages in this
// sandbox); types are resolved by a small declaration index over the scanned packages and, lazily,
// over the packages of the same module they import: named types, struct fields (embedded ones
// promoted), package-level variables, function/method results, local variables introduced by `:=`,
// `var`, parameters, results, receivers and range clauses.  Anything the index cannot resolve is
// reported as `range?`, so a miss of the resolver shows up as an extra site, never as a missing one.
//
// For every map iteration (maprange, range?, syncmap) it also emits a row of `loops`: what the loop BODY does, so
// that the classification of the site is tied to the body and not only to the operand:
//
//	exits   how the body can leave the loop early (break, return, goto, labelled break/continue to an outer
//	        loop): with an early exit the SET of visited entries depends on the iteration order
//	writes  the assignment targets of the body that are not plain loop-local variables (index expressions
//	        abstracted: `m[_]`), `delete(m, _)`, channel sends, ++/--
//	calls   the functions and methods the body calls (logger chains left out), sorted
//	stateCalls  those of `calls` that write block state, receipts or the state database, by name (ndStateWriters)
//	hash    fingerprint of the printed body (comments and layout do not count)
//
// The Lean side (`Aergo.Model.Nondet.table`) maps every key to the theorem that covers it or to the
// reason why it cannot feed consensus state; `Props.C02.all_sites_covered` fails on an unmapped key.
func init() { register("nondet", cmdNondet) }

type ndPkg struct {
	dir     string // relative to repo
	files   []*ast.File
	names   []string
	types   map[string]ndRef   // named type -> declared type expression
	vars    map[string]ndRef   // package-level var/const -> type (or initialiser to be typed)
	varInit map[string]ndRef   // package-level var -> initialiser expression
	funcs   map[string]*ndFunc // "F" or "T.M"
	imports map[*ast.File]map[string]string
}

type ndFunc struct {
	file *ast.File
	typ  *ast.FuncType
}

// ndRef is a type expression together with the package and file in which its identifiers resolve.
type ndRef struct {
	p *ndPkg
	f *ast.File
	e ast.Expr
}

func (r ndRef) ok() bool { return r.e != nil }

type ndWorld struct {
	repo, module string
	fset         *token.FileSet
	pkgs         map[string]*ndPkg // by relative dir
}

func (w *ndWorld) load(dir string) *ndPkg {
	if p, ok := w.pkgs[dir]; ok {
		return p
	}
	w.pkgs[dir] = nil
	ents, err := os.ReadDir(filepath.Join(w.repo, dir))
	if err != nil {
		return nil
	}
	p := &ndPkg{dir: dir, types: map[string]ndRef{}, vars: map[string]ndRef{}, varInit: map[string]ndRef{},
		funcs: map[string]*ndFunc{}, imports: map[*ast.File]map[string]string{}}
	for _, e := range ents {
		n := e.Name()
		if e.IsDir() || !strings.HasSuffix(n, ".go") || strings.HasSuffix(n, "_test.go") {
			continue
		}
		af, err := parser.ParseFile(w.fset, filepath.Join(w.repo, dir, n), nil, parser.SkipObjectResolution)
		if err != nil {
			continue
		}
		p.files = append(p.files, af)
		p.names = append(p.names, n)
		w.index(p, af)
	}
	w.pkgs[dir] = p
	return p
}

func (w *ndWorld) index(p *ndPkg, af *ast.File) {
	imps := map[string]string{}
	for _, im := range af.Imports {
		path := strings.Trim(im.Path.Value, "\"`")
		name := path[strings.LastIndex(path, "/")+1:]
		if len(name) > 1 && name[0] == 'v' && strings.Trim(name[1:], "0123456789") == "" { // …/v2
			q := strings.TrimSuffix(path, "/"+name)
			name = q[strings.LastIndex(q, "/")+1:]
		}
		if im.Name != nil {
			name = im.Name.Name
		}
		imps[name] = path
	}
	p.imports[af] = imps
	for _, d := range af.Decls {
		switch v := d.(type) {
		case *ast.GenDecl:
			for _, s := range v.Specs {
				switch sp := s.(type) {
				case *ast.TypeSpec:
					p.types[sp.Name.Name] = ndRef{p, af, sp.Type}
				case *ast.ValueSpec:
					for i, nm := range sp.Names {
						if sp.Type != nil {
							p.vars[nm.Name] = ndRef{p, af, sp.Type}
						} else if len(sp.Values) == len(sp.Names) {
							p.varInit[nm.Name] = ndRef{p, af, sp.Values[i]}
						}
					}
				}
			}
		case *ast.FuncDecl:
			p.funcs[funcName(v)] = &ndFunc{af, v.Type}
		}
	}
}

// pkgOf resolves an import name used in file f of package p to a package of the same module.
func (w *ndWorld) pkgOf(p *ndPkg, f *ast.File, name string) (*ndPkg, bool) {
	path, ok := p.imports[f][name]
	if !ok {
		return nil, false
	}
	if path == w.module {
		return w.load("."), true
	}
	if strings.HasPrefix(path, w.module+"/") {
		return w.load(strings.TrimPrefix(path, w.module+"/")), true
	}
	return nil, true // an import, but of another module / the standard library
}

var ndBasic = map[string]bool{"string": true, "int": true, "int8": true, "int16": true, "int32": true, "int64": true,
	"uint": true, "uint8": true, "uint16": true, "uint32": true, "uint64": true, "uintptr": true, "byte": true, "rune": true,
	"bool": true, "float32": true, "float64": true, "error": true, "complex64": true, "complex128": true}

// under unfolds named types (of this module) until a type literal, a basic type or something unknown.
func (w *ndWorld) under(r ndRef) ndRef {
	for depth := 0; depth < 20 && r.ok(); depth++ {
		switch v := r.e.(type) {
		case *ast.ParenExpr:
			r = ndRef{r.p, r.f, v.X}
		case *ast.Ident:
			if ndBasic[v.Name] {
				return r
			}
			t, ok := r.p.types[v.Name]
			if !ok {
				return ndRef{}
			}
			r = t
		case *ast.SelectorExpr:
			id, ok := v.X.(*ast.Ident)
			if !ok {
				return ndRef{}
			}
			q, _ := w.pkgOf(r.p, r.f, id.Name)
			if q == nil {
				return ndRef{}
			}
			t, ok := q.types[v.Sel.Name]
			if !ok {
				return ndRef{}
			}
			r = t
		case *ast.IndexExpr: // generic instantiation: give up
			return ndRef{}
		default:
			return r
		}
	}
	return r
}

// named returns the package and name of the (possibly pointer-to) named type r, if it is one of this module.
func (w *ndWorld) named(r ndRef) (*ndPkg, string) {
	for depth := 0; depth < 5 && r.ok(); depth++ {
		switch v := r.e.(type) {
		case *ast.ParenExpr:
			r = ndRef{r.p, r.f, v.X}
		case *ast.StarExpr:
			r = ndRef{r.p, r.f, v.X}
		case *ast.Ident:
			if t, ok := r.p.types[v.Name]; ok {
				// an alias or a defined type whose right-hand side is again a name: methods live on the first name
				_ = t
				return r.p, v.Name
			}
			return nil, ""
		case *ast.SelectorExpr:
			if id, ok := v.X.(*ast.Ident); ok {
				if q, _ := w.pkgOf(r.p, r.f, id.Name); q != nil {
					return q, v.Sel.Name
				}
			}
			return nil, ""
		default:
			return nil, ""
		}
	}
	return nil, ""
}

func (w *ndWorld) deref(r ndRef) ndRef {
	u := r
	for depth := 0; depth < 4 && u.ok(); depth++ {
		switch v := u.e.(type) {
		case *ast.ParenExpr:
			u = ndRef{u.p, u.f, v.X}
			continue
		case *ast.StarExpr:
			return ndRef{u.p, u.f, v.X}
		}
		break
	}
	uu := w.under(u)
	if uu.ok() {
		if st, ok := uu.e.(*ast.StarExpr); ok {
			return ndRef{uu.p, uu.f, st.X}
		}
	}
	return r
}

// field looks up a field or (promoted) embedded field of struct type r.
func (w *ndWorld) field(r ndRef, name string, depth int) ndRef {
	if depth > 4 {
		return ndRef{}
	}
	u := w.under(w.deref(r))
	if !u.ok() {
		return ndRef{}
	}
	st, ok := u.e.(*ast.StructType)
	if !ok {
		return ndRef{}
	}
	for _, f := range st.Fields.List {
		for _, n := range f.Names {
			if n.Name == name {
				return ndRef{u.p, u.f, f.Type}
			}
		}
	}
	for _, f := range st.Fields.List {
		if len(f.Names) != 0 {
			continue
		}
		emb := ndRef{u.p, u.f, f.Type}
		if _, nm := w.named(emb); nm == name {
			return emb
		}
		if r := w.field(emb, name, depth+1); r.ok() {
			return r
		}
	}
	return ndRef{}
}

// method finds the result type of method name on type r (declared methods, embedded structs, interface methods).
func (w *ndWorld) method(r ndRef, name string, depth int) ndRef {
	if depth > 4 || !r.ok() {
		return ndRef{}
	}
	if q, tn := w.named(r); q != nil {
		if fn, ok := q.funcs[tn+"."+name]; ok {
			return ndResult(q, fn, 0)
		}
	}
	u := w.under(w.deref(r))
	if !u.ok() {
		return ndRef{}
	}
	switch t := u.e.(type) {
	case *ast.InterfaceType:
		for _, m := range t.Methods.List {
			for _, n := range m.Names {
				if n.Name == name {
					if ft, ok := m.Type.(*ast.FuncType); ok {
						return ndResult(u.p, &ndFunc{u.f, ft}, 0)
					}
				}
			}
			if len(m.Names) == 0 {
				if r := w.method(ndRef{u.p, u.f, m.Type}, name, depth+1); r.ok() {
					return r
				}
			}
		}
	case *ast.StructType:
		for _, f := range t.Fields.List {
			if len(f.Names) == 0 {
				if r := w.method(ndRef{u.p, u.f, f.Type}, name, depth+1); r.ok() {
					return r
				}
			}
		}
	}
	return ndRef{}
}

func ndResult(p *ndPkg, fn *ndFunc, i int) ndRef {
	if fn.typ.Results == nil {
		return ndRef{}
	}
	k := 0
	for _, f := range fn.typ.Results.List {
		n := len(f.Names)
		if n == 0 {
			n = 1
		}
		if i < k+n {
			return ndRef{p, fn.file, f.Type}
		}
		k += n
	}
	return ndRef{}
}

type ndScan struct {
	w    *ndWorld
	p    *ndPkg
	f    *ast.File
	env  map[string]ndRef
	out  *[]string
	seen map[string]int
	pref string
	// loops receives one row per map iteration site (nil: not collected, e.g. in a type-resolution sub-scan)
	loops *[]ndLoop
}

// ndLoop describes the body of one map iteration.
type ndLoop struct {
	key, exits, hash          string
	writes, calls, stateCalls []string
}

// ndStateWriters: callee names that write block state, receipts or the state database (by name: a heuristic list,
// kept generous). They are reported separately (`stateCalls`) so that the Lean side can require, structurally, that a
// loop classified `noState` calls none of them.
var ndStateWriters = map[string]bool{".SetData": true, ".DeleteData": true, ".PutState": true, ".AddBalance": true,
	".SubBalance": true, ".SetNonce": true, ".SetCode": true, ".SetStorageRoot": true, "statedb.StageContractState": true,
	"state.SendBalance": true, ".Set": true, ".Delete": true, ".put": true, ".Put": true, ".push": true, ".AddReceipt": true,
	".AddInternalOps": true, ".AddEvent": true, ".Update": true, ".update": true, ".Commit": true, ".commit": true,
	".stage": true, ".Stage": true, ".write": true, ".Rollback": true, ".rollback": true, ".Snapshot": true, ".snapshot": true,
	".Apply": true, ".addVotingPower": true, ".addTotal": true, ".RemoveCache": true, "SendBlockReward": true,
	"chain.SendBlockReward": true, "sendRewardCoinbase": true, "sendVotingReward": true, ".SetGasPrice": true}

func (s *ndScan) add(kind string, n ast.Node) string {
	var sb strings.Builder
	printer.Fprint(&sb, s.w.fset, n)
	txt := strings.Join(strings.Fields(sb.String()), " ")
	if len(txt) > 90 {
		txt = txt[:90] + "…"
	}
	key := s.pref + ":" + kind + ":" + txt
	k := s.seen[key]
	s.seen[key] = k + 1
	if k > 0 {
		key = fmt.Sprintf("%s#%d", key, k)
	}
	*s.out = append(*s.out, key)
	return key
}

func (s *ndScan) text(n ast.Node) string {
	var sb strings.Builder
	printer.Fprint(&sb, s.w.fset, n)
	return strings.Join(strings.Fields(sb.String()), " ")
}

// isLogger: e is (a call chain rooted at) a package-level logger variable (`var logger = log.NewLogger(..)`).
func (s *ndScan) isLogger(e ast.Expr) bool {
	for depth := 0; depth < 30; depth++ {
		switch v := e.(type) {
		case *ast.CallExpr:
			e = v.Fun
		case *ast.SelectorExpr:
			e = v.X
		case *ast.ParenExpr:
			e = v.X
		case *ast.Ident:
			if _, local := s.env[v.Name]; local {
				return false
			}
			if in, ok := s.p.varInit[v.Name]; ok {
				return strings.Contains(s.text(in.e), "NewLogger(")
			}
			if t, ok := s.p.vars[v.Name]; ok {
				return strings.Contains(s.text(t.e), "log.Logger")
			}
			return false
		default:
			return false
		}
	}
	return false
}

// lhsText prints an assignment target with the index expressions abstracted.
func (s *ndScan) lhsText(e ast.Expr) string {
	switch v := e.(type) {
	case *ast.IndexExpr:
		return s.lhsText(v.X) + "[_]"
	case *ast.SelectorExpr:
		return s.lhsText(v.X) + "." + v.Sel.Name
	case *ast.StarExpr:
		return "*" + s.lhsText(v.X)
	case *ast.ParenExpr:
		return s.lhsText(v.X)
	case *ast.Ident:
		return v.Name
	}
	return s.text(e)
}

// loop summarises the body of a map iteration: see the comment at the top of the file.
func (s *ndScan) loop(key string, body ast.Node, isFuncLit bool) {
	if s.loops == nil || body == nil {
		return
	}
	local := map[string]bool{} // names declared inside the body: plain assignments to them are not effects
	ast.Inspect(body, func(n ast.Node) bool {
		switch v := n.(type) {
		case *ast.AssignStmt:
			if v.Tok == token.DEFINE {
				for _, l := range v.Lhs {
					if id, ok := l.(*ast.Ident); ok {
						local[id.Name] = true
					}
				}
			}
		case *ast.ValueSpec:
			for _, n := range v.Names {
				local[n.Name] = true
			}
		case *ast.RangeStmt:
			if v.Tok == token.DEFINE {
				for _, e := range []ast.Expr{v.Key, v.Value} {
					if id, ok := e.(*ast.Ident); ok {
						local[id.Name] = true
					}
				}
			}
		case *ast.FuncLit:
			for _, fl := range []*ast.FieldList{v.Type.Params, v.Type.Results} {
				if fl != nil {
					for _, f := range fl.List {
						for _, n := range f.Names {
							local[n.Name] = true
						}
					}
				}
			}
		}
		return true
	})
	writes, calls, exits := map[string]bool{}, map[string]bool{}, map[string]bool{}
	target := func(e ast.Expr) {
		if id, ok := e.(*ast.Ident); ok && (local[id.Name] || id.Name == "_") {
			return
		}
		writes[s.lhsText(e)] = true
	}
	// depth of enclosing breakable statements inside the body (an unlabelled break there does not leave the loop);
	// inside a nested function literal nothing leaves the loop (a `.Range` callback leaves it by `return false`:
	// recorded as the values it returns)
	var walk func(n ast.Node, brk int, fn int)
	walk = func(n ast.Node, brk int, fn int) {
		if n == nil {
			return
		}
		switch v := n.(type) {
		case *ast.FuncLit:
			walk(v.Body, 0, fn+1)
			return
		case *ast.ForStmt:
			walk(v.Init, brk, fn)
			walk(v.Cond, brk, fn)
			walk(v.Post, brk, fn)
			walk(v.Body, brk+1, fn)
			return
		case *ast.RangeStmt:
			walk(v.X, brk, fn)
			walk(v.Body, brk+1, fn)
			return
		case *ast.SwitchStmt:
			walk(v.Init, brk, fn)
			walk(v.Tag, brk, fn)
			walk(v.Body, brk+1, fn)
			return
		case *ast.TypeSwitchStmt:
			walk(v.Init, brk, fn)
			walk(v.Assign, brk, fn)
			walk(v.Body, brk+1, fn)
			return
		case *ast.SelectStmt:
			walk(v.Body, brk+1, fn)
			return
		case *ast.BranchStmt:
			switch {
			case fn > 0:
			case v.Tok == token.BREAK && v.Label == nil && brk == 0:
				exits["break"] = true
			case v.Tok == token.BREAK && v.Label != nil, v.Tok == token.CONTINUE && v.Label != nil, v.Tok == token.GOTO:
				exits[v.Tok.String()+" "+v.Label.Name] = true
			}
			return
		case *ast.ReturnStmt:
			if fn == 0 && !isFuncLit {
				exits["return"] = true
			} else if fn == 0 && isFuncLit { // the callback of X.Range(f): `return false` stops the iteration
				for _, r := range v.Results {
					if t := s.text(r); t != "true" {
						exits["return "+t] = true
					}
				}
			}
		case *ast.AssignStmt:
			if v.Tok != token.DEFINE {
				for _, l := range v.Lhs {
					target(l)
				}
			} else {
				for _, l := range v.Lhs {
					if _, ok := l.(*ast.Ident); !ok {
						target(l)
					}
				}
			}
		case *ast.IncDecStmt:
			target(v.X)
		case *ast.SendStmt:
			writes[s.lhsText(v.Chan)+"<-"] = true
		case *ast.GoStmt:
			calls["go"] = true
		case *ast.DeferStmt:
			calls["defer"] = true
		case *ast.CallExpr:
			if !s.isLogger(v.Fun) {
				switch f := v.Fun.(type) {
				case *ast.Ident:
					if f.Name == "delete" && len(v.Args) > 0 {
						writes["delete("+s.lhsText(v.Args[0])+")"] = true
					} else if f.Name == "panic" && fn == 0 {
						exits["panic"] = true
					} else {
						calls[f.Name] = true
					}
				case *ast.SelectorExpr:
					name := "." + f.Sel.Name
					if id, ok := f.X.(*ast.Ident); ok {
						if _, isLocal := s.env[id.Name]; !isLocal && !local[id.Name] {
							if _, isImport := s.p.imports[s.f][id.Name]; isImport {
								name = id.Name + "." + f.Sel.Name
							}
						}
					}
					calls[name] = true
				case *ast.FuncLit:
					calls["func"] = true
				default:
					calls["("+s.text(v.Fun)+")"] = true
				}
			}
		}
		// generic descent
		ast.Inspect(n, func(c ast.Node) bool {
			if c == n {
				return true
			}
			if c != nil {
				walk(c, brk, fn)
			}
			return false
		})
	}
	if bs, ok := body.(*ast.BlockStmt); ok {
		for _, st := range bs.List {
			walk(st, 0, 0)
		}
	} else {
		walk(body, 0, 0)
	}
	keys := func(m map[string]bool) []string {
		out := make([]string, 0, len(m))
		for k := range m {
			out = append(out, k)
		}
		sort.Strings(out)
		return out
	}
	sum := sha256.Sum256([]byte(s.text(body)))
	stateCalls := []string{}
	for _, c := range keys(calls) {
		if ndStateWriters[c] {
			stateCalls = append(stateCalls, c)
		}
	}
	*s.loops = append(*s.loops, ndLoop{key: key, exits: strings.Join(keys(exits), ","), writes: keys(writes), calls: keys(calls),
		stateCalls: stateCalls, hash: hex.EncodeToString(sum[:6])})
}

// typeOf: the static type of expression e, or a zero ndRef when unknown.
func (s *ndScan) typeOf(e ast.Expr, depth int) ndRef {
	if depth > 12 || e == nil {
		return ndRef{}
	}
	w := s.w
	here := func(t ast.Expr) ndRef { return ndRef{s.p, s.f, t} }
	switch v := e.(type) {
	case *ast.ParenExpr:
		return s.typeOf(v.X, depth+1)
	case *ast.BasicLit:
		switch v.Kind {
		case token.STRING:
			return here(ast.NewIdent("string"))
		case token.INT:
			return here(ast.NewIdent("int"))
		}
		return ndRef{}
	case *ast.Ident:
		if t, ok := s.env[v.Name]; ok {
			return t
		}
		if t, ok := s.p.vars[v.Name]; ok {
			return t
		}
		if in, ok := s.p.varInit[v.Name]; ok {
			sub := &ndScan{w: w, p: in.p, f: in.f, env: map[string]ndRef{}}
			return sub.typeOf(in.e, depth+1)
		}
		return ndRef{}
	case *ast.CompositeLit:
		if v.Type != nil {
			return here(v.Type)
		}
		return ndRef{}
	case *ast.FuncLit:
		return here(v.Type)
	case *ast.StarExpr:
		return w.deref2(s.typeOf(v.X, depth+1))
	case *ast.UnaryExpr:
		t := s.typeOf(v.X, depth+1)
		if !t.ok() {
			return ndRef{}
		}
		switch v.Op {
		case token.AND:
			return ndRef{t.p, t.f, &ast.StarExpr{X: t.e}}
		case token.ARROW:
			if u := w.under(t); u.ok() {
				if ch, ok := u.e.(*ast.ChanType); ok {
					return ndRef{u.p, u.f, ch.Value}
				}
			}
			return ndRef{}
		}
		return t
	case *ast.BinaryExpr:
		return s.typeOf(v.X, depth+1)
	case *ast.TypeAssertExpr:
		if v.Type != nil {
			return here(v.Type)
		}
		return ndRef{}
	case *ast.SliceExpr:
		return s.typeOf(v.X, depth+1)
	case *ast.IndexExpr:
		u := w.under(w.deref(s.typeOf(v.X, depth+1)))
		if !u.ok() {
			return ndRef{}
		}
		switch t := u.e.(type) {
		case *ast.MapType:
			return ndRef{u.p, u.f, t.Value}
		case *ast.ArrayType:
			return ndRef{u.p, u.f, t.Elt}
		case *ast.Ident:
			if t.Name == "string" {
				return ndRef{u.p, u.f, ast.NewIdent("byte")}
			}
		}
		return ndRef{}
	case *ast.SelectorExpr:
		if id, ok := v.X.(*ast.Ident); ok {
			if _, local := s.env[id.Name]; !local {
				if q, isImport := w.pkgOf(s.p, s.f, id.Name); isImport {
					if q == nil {
						return ndRef{}
					}
					if t, ok := q.vars[v.Sel.Name]; ok {
						return t
					}
					if in, ok := q.varInit[v.Sel.Name]; ok {
						sub := &ndScan{w: w, p: in.p, f: in.f, env: map[string]ndRef{}}
						return sub.typeOf(in.e, depth+1)
					}
					return ndRef{}
				}
			}
		}
		base := s.typeOf(v.X, depth+1)
		if !base.ok() {
			return ndRef{}
		}
		return w.field(base, v.Sel.Name, 0)
	case *ast.CallExpr:
		switch f := v.Fun.(type) {
		case *ast.Ident:
			switch f.Name {
			case "make":
				if len(v.Args) > 0 {
					return here(v.Args[0])
				}
			case "new":
				if len(v.Args) > 0 {
					return here(&ast.StarExpr{X: v.Args[0]})
				}
			case "append":
				if len(v.Args) > 0 {
					return s.typeOf(v.Args[0], depth+1)
				}
			case "len", "cap", "copy":
				return here(ast.NewIdent("int"))
			}
			if t, ok := s.env[f.Name]; ok { // a function value
				if u := w.under(t); u.ok() {
					if ft, ok := u.e.(*ast.FuncType); ok {
						return ndResult(u.p, &ndFunc{u.f, ft}, 0)
					}
				}
				return ndRef{}
			}
			if fn, ok := s.p.funcs[f.Name]; ok {
				return ndResult(s.p, fn, 0)
			}
			if _, ok := s.p.types[f.Name]; ok || ndBasic[f.Name] { // conversion
				return here(f)
			}
			return ndRef{}
		case *ast.ArrayType, *ast.MapType, *ast.ChanType, *ast.StarExpr, *ast.InterfaceType: // conversion
			return here(f)
		case *ast.ParenExpr:
			return here(f.X)
		case *ast.SelectorExpr:
			if id, ok := f.X.(*ast.Ident); ok {
				if _, local := s.env[id.Name]; !local {
					if q, isImport := w.pkgOf(s.p, s.f, id.Name); isImport {
						if q == nil {
							return ndRef{}
						}
						if fn, ok := q.funcs[f.Sel.Name]; ok {
							return ndResult(q, fn, 0)
						}
						if t, ok := q.types[f.Sel.Name]; ok { // conversion pkg.T(x)
							_ = t
							return here(f)
						}
						return ndRef{}
					}
				}
			}
			base := s.typeOf(f.X, depth+1)
			if !base.ok() {
				return ndRef{}
			}
			if r := w.method(base, f.Sel.Name, 0); r.ok() {
				return r
			}
			// a field of function type
			if ft := w.under(w.field(base, f.Sel.Name, 0)); ft.ok() {
				if t, ok := ft.e.(*ast.FuncType); ok {
					return ndResult(ft.p, &ndFunc{ft.f, t}, 0)
				}
			}
			return ndRef{}
		}
	}
	return ndRef{}
}

func (w *ndWorld) deref2(r ndRef) ndRef {
	if !r.ok() {
		return r
	}
	d := w.deref(r)
	return d
}

// class: "map", "other" (certainly not a map) or "" (unknown)
func (s *ndScan) class(t ndRef) string {
	u := s.w.under(t)
	if !u.ok() {
		return ""
	}
	switch v := u.e.(type) {
	case *ast.MapType:
		return "map"
	case *ast.ArrayType, *ast.ChanType, *ast.FuncType:
		return "other"
	case *ast.Ident:
		if ndBasic[v.Name] {
			return "other"
		}
	case *ast.StarExpr: // pointer to array
		if uu := s.w.under(ndRef{u.p, u.f, v.X}); uu.ok() {
			if _, ok := uu.e.(*ast.ArrayType); ok {
				return "other"
			}
		}
	}
	return ""
}

func (s *ndScan) bind(lhs ast.Expr, t ndRef) {
	if id, ok := lhs.(*ast.Ident); ok && id.Name != "_" {
		if t.ok() {
			s.env[id.Name] = t
		} else {
			delete(s.env, id.Name) // shadowed by something of unknown type
		}
	}
}

func (s *ndScan) params(ft *ast.FuncType) {
	for _, fl := range []*ast.FieldList{ft.Params, ft.Results} {
		if fl == nil {
			continue
		}
		for _, f := range fl.List {
			t := f.Type
			if el, ok := t.(*ast.Ellipsis); ok {
				t = &ast.ArrayType{Elt: el.Elt}
			}
			for _, n := range f.Names {
				s.bind(n, ndRef{s.p, s.f, t})
			}
		}
	}
}

func (s *ndScan) multi(rhs ast.Expr, i int) ndRef {
	switch v := rhs.(type) {
	case *ast.CallExpr:
		var fn *ndFunc
		var q *ndPkg
		switch f := v.Fun.(type) {
		case *ast.Ident:
			if x, ok := s.p.funcs[f.Name]; ok {
				fn, q = x, s.p
			}
		case *ast.SelectorExpr:
			if id, ok := f.X.(*ast.Ident); ok {
				if _, local := s.env[id.Name]; !local {
					if qq, isImport := s.w.pkgOf(s.p, s.f, id.Name); isImport {
						if qq != nil {
							if x, ok := qq.funcs[f.Sel.Name]; ok {
								fn, q = x, qq
							}
						}
						break
					}
				}
			}
			base := s.typeOf(f.X, 0)
			if qq, tn := s.w.named(base); qq != nil {
				if x, ok := qq.funcs[tn+"."+f.Sel.Name]; ok {
					fn, q = x, qq
				}
			}
		}
		if fn != nil {
			return ndResult(q, fn, i)
		}
	case *ast.IndexExpr, *ast.TypeAssertExpr, *ast.UnaryExpr:
		if i == 0 {
			return s.typeOf(rhs, 0)
		}
		return ndRef{s.p, s.f, ast.NewIdent("bool")}
	}
	return ndRef{}
}

func (s *ndScan) scan(body ast.Node) {
	randNames := map[string]bool{}
	timeName, sortName, slicesName, osName, runtimeName, mapsName := "", "", "", "", "", ""
	for name, path := range s.p.imports[s.f] {
		switch path {
		case "math/rand", "crypto/rand", "math/rand/v2":
			randNames[name] = true
		case "time":
			timeName = name
		case "sort":
			sortName = name
		case "slices", "golang.org/x/exp/slices":
			slicesName = name
		case "os":
			osName = name
		case "runtime":
			runtimeName = name
		case "maps", "golang.org/x/exp/maps":
			mapsName = name
		}
	}
	envFuncs := map[string]bool{"Getenv": true, "LookupEnv": true, "Environ": true, "Hostname": true, "Getpid": true, "Getwd": true,
		"NumCPU": true, "GOMAXPROCS": true, "NumGoroutine": true}
	ast.Inspect(body, func(n ast.Node) bool {
		switch v := n.(type) {
		case *ast.FuncLit:
			s.params(v.Type)
		case *ast.AssignStmt:
			if v.Tok == token.DEFINE || v.Tok == token.ASSIGN {
				for i, l := range v.Lhs {
					if _, isId := l.(*ast.Ident); !isId {
						continue
					}
					if v.Tok == token.ASSIGN {
						continue // keeps its declared type
					}
					if len(v.Rhs) == len(v.Lhs) {
						s.bind(l, s.typeOf(v.Rhs[i], 0))
					} else if len(v.Rhs) == 1 {
						s.bind(l, s.multi(v.Rhs[0], i))
					}
				}
			}
		case *ast.DeclStmt:
			if gd, ok := v.Decl.(*ast.GenDecl); ok {
				for _, sp := range gd.Specs {
					if vs, ok := sp.(*ast.ValueSpec); ok {
						for i, nm := range vs.Names {
							switch {
							case vs.Type != nil:
								s.bind(nm, ndRef{s.p, s.f, vs.Type})
							case len(vs.Values) == len(vs.Names):
								s.bind(nm, s.typeOf(vs.Values[i], 0))
							case len(vs.Values) == 1:
								s.bind(nm, s.multi(vs.Values[0], i))
							}
						}
					}
				}
			}
		case *ast.RangeStmt:
			t := s.typeOf(v.X, 0)
			switch s.class(t) {
			case "map":
				s.loop(s.add("maprange", v.X), v.Body, false)
			case "":
				s.loop(s.add("range?", v.X), v.Body, false)
			default:
				if os.Getenv("GOEXT_NONDET_DEBUG") != "" {
					var sb strings.Builder
					printer.Fprint(&sb, s.w.fset, v.X)
					fmt.Fprintf(os.Stderr, "not-a-map %s: %s\n", s.pref, sb.String())
				}
			}
			if v.Tok == token.DEFINE {
				var kt, vt ndRef
				if u := s.w.under(s.w.deref(t)); u.ok() {
					switch tt := u.e.(type) {
					case *ast.MapType:
						kt, vt = ndRef{u.p, u.f, tt.Key}, ndRef{u.p, u.f, tt.Value}
					case *ast.ArrayType:
						kt, vt = ndRef{u.p, u.f, ast.NewIdent("int")}, ndRef{u.p, u.f, tt.Elt}
					case *ast.ChanType:
						kt = ndRef{u.p, u.f, tt.Value}
					case *ast.Ident:
						kt, vt = ndRef{u.p, u.f, ast.NewIdent("int")}, ndRef{u.p, u.f, ast.NewIdent("rune")}
					}
				}
				if v.Key != nil {
					s.bind(v.Key, kt)
				}
				if v.Value != nil {
					s.bind(v.Value, vt)
				}
			}
		case *ast.GoStmt:
			s.add("go", v.Call.Fun)
		case *ast.SelectStmt:
			var cases []string
			for _, c := range v.Body.List {
				if cc, ok := c.(*ast.CommClause); ok {
					if cc.Comm == nil {
						cases = append(cases, "default")
					} else {
						var sb strings.Builder
						printer.Fprint(&sb, s.w.fset, cc.Comm)
						cases = append(cases, strings.Join(strings.Fields(sb.String()), " "))
					}
				}
			}
			s.add("select", ast.NewIdent(strings.Join(cases, " | ")))
		case *ast.CallExpr:
			if sel, ok := v.Fun.(*ast.SelectorExpr); ok {
				if sel.Sel.Name == "Range" && len(v.Args) == 1 {
					key := s.add("syncmap", sel)
					if fl, ok := v.Args[0].(*ast.FuncLit); ok {
						s.loop(key, fl.Body, true)
					} else {
						s.loop(key, v.Args[0], true)
					}
				}
				if (sel.Sel.Name == "Err" || sel.Sel.Name == "Deadline") && len(v.Args) == 0 {
					// context polling: the receiver is a context.Context, or of unknown type
					t := s.typeOf(sel.X, 0)
					switch {
					case t.ok() && strings.HasSuffix(s.text(t.e), "context.Context"):
						s.add("ctxpoll", sel)
					case !t.ok() || !s.w.under(s.w.deref(t)).ok():
						s.add("ctxpoll?", sel)
					}
				}
				if (sel.Sel.Name == "MapRange" || sel.Sel.Name == "MapKeys") && len(v.Args) == 0 {
					s.add("mapkeys", sel)
				}
				if strings.HasSuffix(sel.Sel.Name, "f") {
					for _, a := range v.Args {
						if bl, ok := a.(*ast.BasicLit); ok && bl.Kind == token.STRING && strings.Contains(bl.Value, "%p") {
							s.add("ptrfmt", sel)
						}
					}
				}
			}
		case *ast.SelectorExpr:
			if id, ok := v.X.(*ast.Ident); ok {
				if _, local := s.env[id.Name]; !local {
					if randNames[id.Name] {
						s.add("rand", v)
					}
					if id.Name == timeName && (v.Sel.Name == "Now" || v.Sel.Name == "Since" || v.Sel.Name == "Until") {
						s.add("time", v)
					}
					if (id.Name == sortName && sortName != "" && v.Sel.Name != "Reverse" && v.Sel.Name != "Search" && !strings.HasPrefix(v.Sel.Name, "Search") &&
						!strings.HasSuffix(v.Sel.Name, "AreSorted") && !strings.HasSuffix(v.Sel.Name, "IsSorted") && v.Sel.Name != "Interface" &&
						v.Sel.Name != "StringSlice" && v.Sel.Name != "IntSlice" && v.Sel.Name != "Float64Slice") ||
						(id.Name == slicesName && slicesName != "" && strings.HasPrefix(v.Sel.Name, "Sort")) {
						s.add("sort", v)
					}
					if (id.Name == osName && osName != "" || id.Name == runtimeName && runtimeName != "") && envFuncs[v.Sel.Name] {
						s.add("env", v)
					}
					if id.Name == mapsName && mapsName != "" && (v.Sel.Name == "Keys" || v.Sel.Name == "Values") {
						s.add("mapkeys", v)
					}
				}
			}
		}
		return true
	})
}

func cmdNondet(args []string) error {
	fs := flag.NewFlagSet("nondet", flag.ContinueOnError)
	out := fs.String("o", "", "output .lean file")
	repo := fs.String("repo", "/repo", "repository root")
	ns := fs.String("ns", "Aergo.Gen.NondetSites", "Lean namespace")
	roots := fs.String("roots", "", "comma separated package directories: emit `closure`, the packages of this module they transitively import")
	if err := fs.Parse(args); err != nil {
		return err
	}
	if *out == "" || fs.NArg() == 0 {
		return fmt.Errorf("usage: goext nondet -o out.lean [-repo /repo] [-ns NS] dir|dir/file.go ...")
	}
	mod := ""
	if b, err := os.ReadFile(filepath.Join(*repo, "go.mod")); err == nil {
		for _, l := range strings.Split(string(b), "\n") {
			if strings.HasPrefix(l, "module ") {
				mod = strings.TrimSpace(strings.TrimPrefix(l, "module "))
			}
		}
	}
	if mod == "" {
		return fmt.Errorf("cannot read the module path from %s/go.mod", *repo)
	}
	w := &ndWorld{repo: *repo, module: mod, fset: token.NewFileSet(), pkgs: map[string]*ndPkg{}}
	var scanned, sites []string
	var loops []ndLoop
	for _, spec := range fs.Args() {
		spec = strings.TrimSuffix(spec, "/*.go")
		dir, only := spec, ""
		if strings.HasSuffix(spec, ".go") {
			dir, only = filepath.Dir(spec), filepath.Base(spec)
		}
		p := w.load(dir)
		if p == nil || len(p.files) == 0 {
			return fmt.Errorf("%s: no Go files (directory renamed or removed: the inventory no longer covers it)", spec)
		}
		found := false
		for i, af := range p.files {
			if only != "" && p.names[i] != only {
				continue
			}
			found = true
			file := filepath.ToSlash(filepath.Join(dir, p.names[i]))
			scanned = append(scanned, file)
			for _, d := range af.Decls {
				switch fd := d.(type) {
				case *ast.FuncDecl:
					if fd.Body == nil {
						continue
					}
					sc := &ndScan{w: w, p: p, f: af, env: map[string]ndRef{}, out: &sites, seen: map[string]int{}, pref: file + ":" + funcName(fd), loops: &loops}
					if fd.Recv != nil {
						for _, f := range fd.Recv.List {
							for _, n := range f.Names {
								sc.bind(n, ndRef{p, af, f.Type})
							}
						}
					}
					sc.params(fd.Type)
					sc.scan(fd.Body)
				case *ast.GenDecl: // function literals in package-level initialisers
					for _, sp := range fd.Specs {
						if vs, ok := sp.(*ast.ValueSpec); ok {
							for i, val := range vs.Values {
								nm := "_"
								if i < len(vs.Names) {
									nm = vs.Names[i].Name
								}
								sc := &ndScan{w: w, p: p, f: af, env: map[string]ndRef{}, out: &sites, seen: map[string]int{}, pref: file + ":var " + nm, loops: &loops}
								sc.scan(val)
							}
						}
					}
				}
			}
		}
		if !found {
			return fmt.Errorf("%s: file not found (renamed or removed: the inventory no longer covers it)", spec)
		}
	}
	// the module-local transitive import closure of the root packages (non-test files, all build tags): a package that
	// block execution starts to import shows up here and must be added to the scan list (Props.C02.closure_scanned)
	var closure []string
	if *roots != "" {
		seen := map[string]bool{}
		todo := strings.Split(*roots, ",")
		for len(todo) > 0 {
			d := todo[len(todo)-1]
			todo = todo[:len(todo)-1]
			if seen[d] {
				continue
			}
			seen[d] = true
			p := w.load(d)
			if p == nil {
				return fmt.Errorf("%s: root/imported package has no Go files", d)
			}
			for _, imps := range p.imports {
				for _, path := range imps {
					if strings.HasPrefix(path, mod+"/") {
						todo = append(todo, strings.TrimPrefix(path, mod+"/"))
					}
				}
			}
		}
		for d := range seen {
			closure = append(closure, d)
		}
		sort.Strings(closure)
	}
	var scannedDirs []string
	for _, spec := range fs.Args() {
		if !strings.HasSuffix(spec, ".go") || strings.HasSuffix(spec, "/*.go") {
			scannedDirs = append(scannedDirs, strings.TrimSuffix(spec, "/*.go"))
		}
	}
	sort.Strings(scannedDirs)
	sort.Strings(scanned)
	sort.Strings(sites) // canonical order: independent of the order of declarations in the source
	var b strings.Builder
	fmt.Fprintf(&b, "-- GENERATED by /verif/tools/goext nondet from %s. Do not edit.\n", strings.Join(fs.Args(), ", "))
	fmt.Fprintf(&b, "namespace %s\n\n", *ns)
	b.WriteString("/-- files scanned -/\n")
	b.WriteString("def scanned : List String := [\n")
	for i, s := range scanned {
		fmt.Fprintf(&b, "  %s%s\n", leanStr(s), comma(i, len(scanned)))
	}
	b.WriteString("]\n\n")
	b.WriteString("/-- package directories scanned completely -/\n")
	b.WriteString("def scannedDirs : List String := [")
	for i, s := range scannedDirs {
		fmt.Fprintf(&b, "%s%s", leanStr(s), comma(i, len(scannedDirs)))
	}
	b.WriteString("]\n\n")
	b.WriteString("/-- the packages of this module that the root packages (-roots) transitively import, roots included -/\n")
	b.WriteString("def closure : List String := [")
	for i, s := range closure {
		fmt.Fprintf(&b, "%s%s", leanStr(s), comma(i, len(closure)))
	}
	b.WriteString("]\n\n")
	b.WriteString("/-- every `range` over a map (or over an expression whose type the extractor cannot resolve), `.Range(f)` call,\n`time.Now/Since/Until`, use of package `rand`, `go` statement and `select` statement of the scanned files:\n`file:func:kind:text[#n]`, in ascending (byte) order -/\n")
	b.WriteString("def sites : List String := [\n")
	for i, s := range sites {
		fmt.Fprintf(&b, "  %s%s\n", leanStr(s), comma(i, len(sites)))
	}
	b.WriteString("]\n\n")
	sort.Slice(loops, func(i, j int) bool { return loops[i].key < loops[j].key })
	b.WriteString("/-- one row per map iteration (kinds maprange, range?, syncmap) of `sites`, same order: the key, how the body can\nleave the loop early, the non-local targets it writes, the functions it calls (logger chains left out), those of\nthem that write block state / receipts / the state database by name, and a fingerprint of the printed body -/\n")
	b.WriteString("def loops : List (String × String × List String × List String × List String × String) := [\n")
	strs := func(l []string) string {
		q := make([]string, len(l))
		for i, x := range l {
			q[i] = leanStr(x)
		}
		return "[" + strings.Join(q, ", ") + "]"
	}
	for i, l := range loops {
		fmt.Fprintf(&b, "  (%s,\n    %s, %s,\n    %s,\n    %s, %s)%s\n", leanStr(l.key), leanStr(l.exits), strs(l.writes), strs(l.calls), strs(l.stateCalls), leanStr(l.hash), comma(i, len(loops)))
	}
	b.WriteString("]\n\n")
	fmt.Fprintf(&b, "end %s\n", *ns)
	return os.WriteFile(*out, []byte(b.String()), 0o644)
}
