package main

import (
	"flag"
	"fmt"
	"go/ast"
	"go/parser"
	"go/token"
	"os"
	"path/filepath"
	"sort"
	"strings"
)

// Lock discipline of the transaction pool (C13, concurrency clause).
//
//	goext poollocks -o out.lean -repo /repo [-ns Aergo.Gen.PoolLocks] [-recv MemPool] [-guard f1,f2,...] file.go ...
//
// For every function and method of the given files it walks the body in statement order, tracking which of the
// receiver's own locks is held at each point (`mp.Lock()` -> exclusive, `mp.RLock()` -> shared, `mp.Unlock()` /
// `mp.RUnlock()` -> none; a deferred unlock holds until return; branches are walked with the state at their entry and the
// state after a branching statement is the weakest of its arms), and lists, per function, every
//
//	write   <field>   assignment / ++ / -- / delete() whose target is rooted at a guarded field of the pool value
//	read    <field>   any other mention of a guarded field
//	listmut <method>  a call of Put / FilterByState / RemoveTx on something that is not the pool (a per-account list)
//	cache   <method>  mp.cache.Store / Delete (the hash index must move together with the counters)
//	call    <method>  a call of another function of the scanned files on the pool value (x.mp.f(...) or mp.f(...))
//
// together with the lock level held at that point (0 none, 1 shared, 2 exclusive). The pool value is any expression
// `mp` or `<x>.mp` (receiver / parameter / field name `mp`, which is what mempool.go, txlist.go and txverifier.go use);
// calls of plain functions of the scanned files are call sites too. Every function also carries `internal`: its name is
// unexported (or it is a method of an unexported type) and it is never used as a value (method value, function value,
// method expression) in the scanned files — only such a function can be entered *only* through the call sites listed.
// Purely syntactic; the Lean side (Aergo.Lemmas.PoolLocks) makes the table interprocedural: the level an internal
// function is entered with is the minimum over all its call sites of max(entry level of the caller, level at the site),
// iterated to a fixpoint; no call site, exported or used as a value => none. Accesses are judged at
// max(entry level, level taken locally): every write must be exclusive and every read under some lock, except for a
// listed set of exceptions.
//
// Aliases: a local variable assigned from an expression that mentions an *alias field* (-alias, default `pool`: the map,
// the per-account lists reached through it, the slices `list.Get()` hands out — they share the lists' backing arrays)
// or another such local is "derived from guarded data" (by name, flow-insensitive inside one function; `len(..)` / `cap(..)`
// of it is a copied scalar). Every later mention of such a local is listed as `read <field>~` at the lock level held
// *there*: collecting the lists under the lock, unlocking and then walking them is a read of guarded memory with no lock.
//
//	-reuse M   do not emit the Eff/Fn structures, import module M and use its (for the synthetic self-test table)
func init() { register("poollocks", cmdPoolLocks) }

type plEff struct {
	kind, what string
	lock       int
}

type plScan struct {
	guard map[string]bool
	funcs map[string]bool
	plain map[string]bool   // package-level functions (not methods) of the scanned files
	alias map[string]bool   // guarded fields whose values alias guarded memory (maps, lists, slices)
	taint map[string]string // local variable -> the alias field it was derived from
	effs  []plEff
	seen  map[string]bool
}

func (s *plScan) add(kind, what string, lock int) {
	k := fmt.Sprintf("%s %s %d", kind, what, lock)
	if s.seen[k] {
		return
	}
	s.seen[k] = true
	s.effs = append(s.effs, plEff{kind, what, lock})
}

// isPool: `mp` or `<x>.mp`
func isPool(e ast.Expr) bool {
	switch v := e.(type) {
	case *ast.Ident:
		return v.Name == "mp"
	case *ast.SelectorExpr:
		return v.Sel.Name == "mp"
	}
	return false
}

// guardedRoot: e is mp.<field>, or an index / selector / star chain on top of it; returns the field
func (s *plScan) guardedRoot(e ast.Expr) string {
	for {
		switch v := e.(type) {
		case *ast.SelectorExpr:
			if isPool(v.X) && s.guard[v.Sel.Name] {
				return v.Sel.Name
			}
			e = v.X
		case *ast.IndexExpr:
			e = v.X
		case *ast.StarExpr:
			e = v.X
		case *ast.ParenExpr:
			e = v.X
		default:
			return ""
		}
	}
}

// derivedFrom: the alias field an expression is derived from ("" = none): it mentions mp.<alias field> or a tainted
// local; len(..) and cap(..) are copied scalars.
func (s *plScan) derivedFrom(e ast.Expr) string {
	if e == nil {
		return ""
	}
	if c, ok := e.(*ast.CallExpr); ok {
		if id, ok := c.Fun.(*ast.Ident); ok && (id.Name == "len" || id.Name == "cap") {
			return ""
		}
	}
	out := ""
	ast.Inspect(e, func(x ast.Node) bool {
		switch v := x.(type) {
		case *ast.FuncLit:
			return false
		case *ast.SelectorExpr:
			if isPool(v.X) && s.alias[v.Sel.Name] {
				out = v.Sel.Name
				return false
			}
		case *ast.Ident:
			if f := s.taint[v.Name]; f != "" {
				out = f
			}
		}
		return out == ""
	})
	return out
}

func (s *plScan) markDerived(lhs ast.Expr, field string) {
	if id, ok := lhs.(*ast.Ident); ok && id.Name != "_" && field != "" {
		s.taint[id.Name] = field
	}
}

func lockCall(e ast.Expr) string {
	c, ok := e.(*ast.CallExpr)
	if !ok {
		return ""
	}
	sel, ok := c.Fun.(*ast.SelectorExpr)
	if !ok || !isPool(sel.X) {
		return ""
	}
	switch sel.Sel.Name {
	case "Lock", "RLock", "Unlock", "RUnlock":
		return sel.Sel.Name
	}
	return ""
}

// exprEffects: reads, calls, list mutations inside an expression (writes are found at statement level)
func (s *plScan) exprEffects(n ast.Node, lock int, skip map[ast.Expr]bool) {
	if n == nil {
		return
	}
	ast.Inspect(n, func(x ast.Node) bool {
		switch v := x.(type) {
		case *ast.FuncLit:
			s.block(v.Body.List, lock) // a closure runs where it is (the pool's closures are called in place)
			return false
		case *ast.CallExpr:
			if id, ok := v.Fun.(*ast.Ident); ok && id.Name == "delete" && len(v.Args) > 0 {
				if f := s.guardedRoot(v.Args[0]); f != "" {
					s.add("write", f, lock)
					skip[v.Args[0]] = true
				}
			}
			if id, ok := v.Fun.(*ast.Ident); ok && s.plain[id.Name] {
				s.add("call", id.Name, lock)
			}
			if sel, ok := v.Fun.(*ast.SelectorExpr); ok {
				switch {
				case isPool(sel.X) && s.funcs[sel.Sel.Name]:
					s.add("call", sel.Sel.Name, lock)
				case !isPool(sel.X) && (sel.Sel.Name == "Put" || sel.Sel.Name == "FilterByState" || sel.Sel.Name == "RemoveTx"):
					s.add("listmut", sel.Sel.Name, lock)
				}
				if in, ok := sel.X.(*ast.SelectorExpr); ok && isPool(in.X) && in.Sel.Name == "cache" &&
					(sel.Sel.Name == "Store" || sel.Sel.Name == "Delete") {
					s.add("cache", sel.Sel.Name, lock)
				}
			}
		case *ast.SelectorExpr:
			if skip[v] {
				return false
			}
			if isPool(v.X) && s.guard[v.Sel.Name] {
				s.add("read", v.Sel.Name, lock)
				return false
			}
		case *ast.IndexExpr:
			if skip[v] {
				return false
			}
		case *ast.Ident:
			if f := s.taint[v.Name]; f != "" {
				s.add("read", f+"~", lock)
			}
		}
		return true
	})
}

func minInt(a, b int) int {
	if a < b {
		return a
	}
	return b
}

// block walks statements in order and returns the lock level held after them
func (s *plScan) block(list []ast.Stmt, lock int) int {
	for _, st := range list {
		lock = s.stmt(st, lock)
	}
	return lock
}

func (s *plScan) stmt(st ast.Stmt, lock int) int {
	skip := map[ast.Expr]bool{}
	switch v := st.(type) {
	case *ast.ExprStmt:
		switch lockCall(v.X) {
		case "Lock":
			return 2
		case "RLock":
			return 1
		case "Unlock", "RUnlock":
			return 0
		}
		s.exprEffects(v.X, lock, skip)
	case *ast.DeferStmt:
		if lockCall(v.Call) != "" {
			return lock // released at return
		}
		s.exprEffects(v.Call, lock, skip)
	case *ast.GoStmt:
		s.exprEffects(v.Call, 0, skip) // a new goroutine holds nothing
	case *ast.AssignStmt:
		for _, l := range v.Lhs {
			if f := s.guardedRoot(l); f != "" {
				s.add("write", f, lock)
				skip[l] = true
				// index expressions inside the target are still reads of what they mention
				if ix, ok := l.(*ast.IndexExpr); ok {
					s.exprEffects(ix.Index, lock, skip)
				}
			} else {
				s.exprEffects(l, lock, skip)
			}
		}
		for _, r := range v.Rhs {
			s.exprEffects(r, lock, skip)
		}
		for i, l := range v.Lhs {
			var r ast.Expr
			if len(v.Rhs) == len(v.Lhs) {
				r = v.Rhs[i]
			} else if len(v.Rhs) == 1 {
				r = v.Rhs[0]
			}
			s.markDerived(l, s.derivedFrom(r))
		}
	case *ast.IncDecStmt:
		if f := s.guardedRoot(v.X); f != "" {
			s.add("write", f, lock)
		} else {
			s.exprEffects(v.X, lock, skip)
		}
	case *ast.BlockStmt:
		return s.block(v.List, lock)
	case *ast.IfStmt:
		if v.Init != nil {
			lock = s.stmt(v.Init, lock)
		}
		s.exprEffects(v.Cond, lock, skip)
		a := s.block(v.Body.List, lock)
		b := lock
		if v.Else != nil {
			b = s.stmt(v.Else, lock)
		}
		return minInt(a, b)
	case *ast.ForStmt:
		if v.Init != nil {
			lock = s.stmt(v.Init, lock)
		}
		s.exprEffects(v.Cond, lock, skip)
		if v.Post != nil {
			s.stmt(v.Post, lock)
		}
		return minInt(lock, s.block(v.Body.List, lock))
	case *ast.RangeStmt:
		s.exprEffects(v.X, lock, skip)
		if f := s.derivedFrom(v.X); f != "" && v.Value != nil {
			s.markDerived(v.Value, f) // the elements (lists, transactions slices); a map key is a copied scalar
		}
		return minInt(lock, s.block(v.Body.List, lock))
	case *ast.SwitchStmt:
		if v.Init != nil {
			lock = s.stmt(v.Init, lock)
		}
		s.exprEffects(v.Tag, lock, skip)
		out := lock
		for _, c := range v.Body.List {
			cc := c.(*ast.CaseClause)
			for _, e := range cc.List {
				s.exprEffects(e, lock, skip)
			}
			out = minInt(out, s.block(cc.Body, lock))
		}
		return out
	case *ast.TypeSwitchStmt:
		if v.Init != nil {
			lock = s.stmt(v.Init, lock)
		}
		s.stmt(v.Assign, lock)
		out := lock
		for _, c := range v.Body.List {
			out = minInt(out, s.block(c.(*ast.CaseClause).Body, lock))
		}
		return out
	case *ast.SelectStmt:
		out := lock
		for _, c := range v.Body.List {
			cc := c.(*ast.CommClause)
			if cc.Comm != nil {
				s.stmt(cc.Comm, lock)
			}
			out = minInt(out, s.block(cc.Body, lock))
		}
		return out
	case *ast.LabeledStmt:
		return s.stmt(v.Stmt, lock)
	case *ast.ReturnStmt:
		for _, r := range v.Results {
			s.exprEffects(r, lock, skip)
		}
	case *ast.DeclStmt:
		s.exprEffects(v.Decl, lock, skip)
		if gd, ok := v.Decl.(*ast.GenDecl); ok {
			for _, sp := range gd.Specs {
				if vs, ok := sp.(*ast.ValueSpec); ok && len(vs.Values) == len(vs.Names) {
					for i, nm := range vs.Names {
						s.markDerived(nm, s.derivedFrom(vs.Values[i]))
					}
				}
			}
		}
	case *ast.SendStmt:
		s.exprEffects(v.Chan, lock, skip)
		s.exprEffects(v.Value, lock, skip)
	}
	return lock
}

func cmdPoolLocks(args []string) error {
	fs := flag.NewFlagSet("poollocks", flag.ContinueOnError)
	out := fs.String("o", "", "output .lean file")
	repo := fs.String("repo", "/repo", "repository root")
	ns := fs.String("ns", "Aergo.Gen.PoolLocks", "Lean namespace")
	alias := fs.String("alias", "pool", "guarded fields whose values alias guarded memory (locals derived from them are tracked)")
	reuse := fs.String("reuse", "", "import this module for the Eff/Fn structures instead of emitting them")
	guard := fs.String("guard", "pool,length,orphan,cache,bestBlockID,bestBlockInfo,stateDB,bestChainIdHash,acceptChainIdHash", "guarded fields of the pool value")
	if err := fs.Parse(args); err != nil {
		return err
	}
	if *out == "" || fs.NArg() == 0 {
		return fmt.Errorf("usage: goext poollocks -o out.lean [-repo /repo] [-guard f1,f2] file.go ...")
	}
	g := map[string]bool{}
	for _, f := range strings.Split(*guard, ",") {
		g[f] = true
	}
	type fn struct {
		name     string
		short    string
		body     *ast.BlockStmt
		internal bool
	}
	var fns []fn
	funcs := map[string]bool{}
	plain := map[string]bool{}
	taken := map[string]bool{} // used as a value somewhere: callable from anywhere
	var files []*ast.File
	for _, file := range fs.Args() {
		fset := token.NewFileSet()
		af, err := parser.ParseFile(fset, filepath.Join(*repo, file), nil, parser.SkipObjectResolution)
		if err != nil {
			return err
		}
		for _, d := range af.Decls {
			fd, ok := d.(*ast.FuncDecl)
			if !ok || fd.Body == nil {
				continue
			}
			name := funcName(fd)
			internal := !ast.IsExported(fd.Name.Name)
			if fd.Recv != nil {
				if i := strings.Index(name, "."); i > 0 && !ast.IsExported(name[:i]) {
					internal = true // a method of an unexported type
				}
			} else {
				plain[fd.Name.Name] = true
			}
			fns = append(fns, fn{name, fd.Name.Name, fd.Body, internal})
			funcs[fd.Name.Name] = true
		}
		files = append(files, af)
	}
	// a function or method that is mentioned anywhere but in call position may be called from anywhere
	for _, af := range files {
		inCall := map[ast.Expr]bool{}
		declName := map[*ast.Ident]bool{}
		ast.Inspect(af, func(x ast.Node) bool {
			switch v := x.(type) {
			case *ast.FuncDecl:
				declName[v.Name] = true
			case *ast.CallExpr:
				inCall[v.Fun] = true
			}
			return true
		})
		ast.Inspect(af, func(x ast.Node) bool {
			switch v := x.(type) {
			case *ast.SelectorExpr:
				if funcs[v.Sel.Name] && !inCall[v] {
					taken[v.Sel.Name] = true // a method value / method expression (or a field of that name: conservative)
				}
				declName[v.Sel] = true // the selector's own identifier is not a bare mention
			case *ast.Ident:
				if plain[v.Name] && !inCall[v] && !declName[v] {
					taken[v.Name] = true
				}
			case *ast.KeyValueExpr:
				if id, ok := v.Key.(*ast.Ident); ok {
					declName[id] = true // a field name in a composite literal
				}
			}
			return true
		})
	}
	for _, l := range []string{"Lock", "RLock", "Unlock", "RUnlock"} {
		delete(funcs, l)
	}
	sort.SliceStable(fns, func(i, j int) bool { return fns[i].name < fns[j].name })
	var b strings.Builder
	fmt.Fprintf(&b, "-- GENERATED by /verif/tools/goext poollocks from %s. Do not edit.\n", strings.Join(fs.Args(), ", "))
	fmt.Fprintf(&b, "namespace %s\n\n", *ns)
	if *reuse != "" {
		b.Reset()
		fmt.Fprintf(&b, "-- GENERATED by /verif/tools/goext poollocks from %s. Do not edit.\nimport %s\nnamespace %s\nopen %s\n\n", strings.Join(fs.Args(), ", "), *reuse, *ns, *reuse)
	} else {
		b.WriteString("/-- kind: 0 write, 1 read, 2 listmut, 3 cache, 4 call; `what`: field or method; `lock`: level of the pool's own lock\nheld at that point of the function body (0 none, 1 shared, 2 exclusive) -/\n")
		b.WriteString("structure Eff where\n  kind : Nat\n  what : String\n  lock : Nat\nderiving DecidableEq, Repr\n\n")
		b.WriteString("/-- `internal`: unexported (or a method of an unexported type) and never used as a value in the scanned files: entered\nonly through the call sites the table lists -/\n")
		b.WriteString("structure Fn where\n  name : String\n  internal : Bool\n  effs : List Eff\nderiving Repr\n\n")
	}
	kinds := map[string]int{"write": 0, "read": 1, "listmut": 2, "cache": 3, "call": 4}
	b.WriteString("def fns : List Fn := [\n")
	n := 0
	for _, f := range fns {
		al := map[string]bool{}
		for _, f := range strings.Split(*alias, ",") {
			al[f] = true
		}
		sc := &plScan{guard: g, funcs: funcs, plain: plain, seen: map[string]bool{}, alias: al, taint: map[string]string{}}
		sc.block(f.body.List, 0)
		if len(sc.effs) == 0 {
			continue
		}
		if n > 0 {
			b.WriteString(",\n")
		}
		n++
		// method names without the receiver type (calls are by method name)
		internal := "false"
		if f.internal && !taken[f.short] {
			internal = "true"
		}
		fmt.Fprintf(&b, "  ⟨%s, %s, [", leanStr(f.short), internal)
		for i, e := range sc.effs {
			if i > 0 {
				b.WriteString(", ")
			}
			fmt.Fprintf(&b, "⟨%d, %s, %d⟩", kinds[e.kind], leanStr(e.what), e.lock)
		}
		b.WriteString("]⟩")
	}
	b.WriteString("\n]\n\n")
	fmt.Fprintf(&b, "end %s\n", *ns)
	return os.WriteFile(*out, []byte(b.String()), 0o644)
}
