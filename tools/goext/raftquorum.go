package main

// goext raftquorum -ns <Namespace> -o out.lean /repo/consensus/impl/raftv2/cluster.go
//
// Regenerates the quorum arithmetic of (*Cluster).isEnableChangeMembership (C16):
//
//   * the closure `isClusterAvilable := func(total int, healthy int) bool { quorum := total/2 + 1; …; return healthy >= quorum }`
//     (logger call statements are dropped: they have no value), and
//   * the guard of `return ErrRemoveHealthyNode`: the `if !isClusterAvilable(<a>, <b>)` statement, emitted as
//     `removeKeepsQuorum cp_N healthy := isClusterAvilable <a> <b>`.
//
// Both go through the integer-function translator of intfn.go, so anything outside its subset
// (a loop, another call, a changed shape of the guard) makes the command fail: the tie is then
// reported as broken instead of silently keeping an old definition.
//
// Rewrites that cannot change the value are recognised (the Lean names stay `isClusterAvilable` /
// `removeKeepsQuorum`, arguments are positional): another name for the closure (it is found by its
// shape `func(int, int) bool` if the configured name is absent), other names for the locals `cp` /
// `healthy`, the guard written `if ok := f(a, b); !ok { return Err }` or inverted `if f(a, b) { return nil }; [logging;] return Err`
// (inside a tagged or a tagless switch alike: the guard is looked for in every block and case clause),
// the sentinel wrapped (`fmt.Errorf("%w", Err)`), further value-less call statements (logging, metrics)
// in the closure — but never one whose call chain names Panic/Fatal/Exit or a bare panic().

import (
	"flag"
	"fmt"
	"go/ast"
	"go/parser"
	"go/token"
	"os"
	"strings"
)

func init() { register("raftquorum", cmdRaftQuorum) }

func rootIdent(e ast.Expr) string {
	for {
		switch x := e.(type) {
		case *ast.CallExpr:
			e = x.Fun
		case *ast.SelectorExpr:
			e = x.X
		case *ast.Ident:
			return x.Name
		default:
			return ""
		}
	}
}

// valueless: an expression statement that cannot influence the value the closure returns: a call whose
// chain does not name panic / fatal / exit.
func valueless(e ast.Expr) bool {
	ok := true
	sawCall := false
	ast.Inspect(e, func(n ast.Node) bool {
		switch x := n.(type) {
		case *ast.CallExpr:
			sawCall = true
			if id, isId := x.Fun.(*ast.Ident); isId && (id.Name == "panic" || id.Name == "recover") {
				ok = false
			}
		case *ast.SelectorExpr:
			l := strings.ToLower(x.Sel.Name)
			if strings.Contains(l, "panic") || strings.Contains(l, "fatal") || strings.Contains(l, "exit") || strings.Contains(l, "goexit") {
				ok = false
			}
		case *ast.FuncLit:
			ok = false
		}
		return ok
	})
	return ok && sawCall
}

func isIntBoolClosure(l *ast.FuncLit) bool {
	if l.Type.Params == nil || l.Type.Results == nil || len(l.Type.Results.List) != 1 {
		return false
	}
	n := 0
	for _, f := range l.Type.Params.List {
		id, ok := f.Type.(*ast.Ident)
		if !ok || id.Name != "int" {
			return false
		}
		k := len(f.Names)
		if k == 0 {
			k = 1
		}
		n += k
	}
	r, ok := l.Type.Results.List[0].Type.(*ast.Ident)
	return n == 2 && ok && r.Name == "bool"
}

func rqMentions(e ast.Expr, name string) bool {
	found := false
	ast.Inspect(e, func(n ast.Node) bool {
		if id, ok := n.(*ast.Ident); ok && id.Name == name {
			found = true
		}
		return !found
	})
	return found
}

func returnsSentinel(st ast.Stmt, sentinel string) bool {
	rs, ok := st.(*ast.ReturnStmt)
	return ok && len(rs.Results) == 1 && rqMentions(rs.Results[0], sentinel)
}

func returnsNil(st ast.Stmt) bool {
	rs, ok := st.(*ast.ReturnStmt)
	if !ok || len(rs.Results) != 1 {
		return false
	}
	id, ok := rs.Results[0].(*ast.Ident)
	return ok && id.Name == "nil"
}

func cmdRaftQuorum(args []string) error {
	fs := flag.NewFlagSet("raftquorum", flag.ContinueOnError)
	ns := fs.String("ns", "Aergo.Gen.RaftQuorum", "Lean namespace")
	out := fs.String("o", "", "output file")
	fn := fs.String("fn", "Cluster.isEnableChangeMembership", "enclosing method")
	closure := fs.String("closure", "isClusterAvilable", "name of the availability closure")
	sentinel := fs.String("err", "ErrRemoveHealthyNode", "error returned by the guarded branch")
	if err := fs.Parse(args); err != nil {
		return err
	}
	if len(fs.Args()) != 1 {
		return fmt.Errorf("raftquorum: need exactly one Go file")
	}
	file := fs.Args()[0]
	ctx := &intfnCtx{fset: token.NewFileSet(), consts: map[string]ast.Expr{}, gvars: map[string]bool{}, fns: map[string]*fnInfo{}}
	af, err := parser.ParseFile(ctx.fset, file, nil, parser.SkipObjectResolution)
	if err != nil {
		return err
	}
	var encl *ast.FuncDecl
	for _, d := range af.Decls {
		if fd, ok := d.(*ast.FuncDecl); ok && goFnKey(fd) == *fn {
			encl = fd
		}
	}
	if encl == nil {
		return fmt.Errorf("raftquorum: %s not found in %s (the tie to the source is broken)", *fn, file)
	}
	// 1. the closure: by its configured name, else the only closure of shape func(int, int) bool
	var lit *ast.FuncLit
	nlit := 0
	goName := *closure
	find := func(byShape bool) {
		lit, nlit = nil, 0
		ast.Inspect(encl.Body, func(n ast.Node) bool {
			as, ok := n.(*ast.AssignStmt)
			if !ok || len(as.Lhs) != 1 || len(as.Rhs) != 1 {
				return true
			}
			id, ok := as.Lhs[0].(*ast.Ident)
			if !ok {
				return true
			}
			l, ok := as.Rhs[0].(*ast.FuncLit)
			if !ok {
				return true
			}
			if (!byShape && id.Name == *closure) || (byShape && isIntBoolClosure(l)) {
				lit, goName = l, id.Name
				nlit++
			}
			return true
		})
	}
	find(false)
	if nlit == 0 {
		find(true)
	}
	if lit == nil || nlit != 1 {
		return fmt.Errorf("raftquorum: availability closure (%s, or the only func(int, int) bool) not found exactly once in %s (found %d)", *closure, *fn, nlit)
	}
	var body []ast.Stmt
	for _, st := range lit.Body.List {
		if es, ok := st.(*ast.ExprStmt); ok {
			if valueless(es.X) {
				continue
			}
			return fmt.Errorf("raftquorum: unsupported expression statement in %s at %s", goName, ctx.fset.Position(es.Pos()))
		}
		body = append(body, st)
	}
	d1 := &ast.FuncDecl{Name: &ast.Ident{Name: *closure, NamePos: lit.Pos()}, Type: lit.Type, Body: &ast.BlockStmt{List: body}}
	// the closure keeps its Lean name whatever it is called in the source
	f1 := &fnInfo{name: *closure, decl: d1, bool: true}
	ctx.fns[*closure] = f1
	// 2. the guard of the sentinel error. Shapes: `if !f(a, b) { …; return Err }`,
	// `if ok := f(a, b); !ok { …; return Err }`, `if f(a, b) { …; return nil }` directly followed by `return Err`.
	var call *ast.CallExpr
	var gpos token.Pos
	nguards := 0
	isCall := func(e ast.Expr) *ast.CallExpr {
		c, ok := e.(*ast.CallExpr)
		if !ok {
			return nil
		}
		if id, ok := c.Fun.(*ast.Ident); !ok || id.Name != goName || len(c.Args) != 2 {
			return nil
		}
		return c
	}
	var shapeErr error
	ast.Inspect(encl.Body, func(n ast.Node) bool {
		blk, ok := n.(*ast.BlockStmt)
		if !ok {
			if cc, ok := n.(*ast.CaseClause); ok {
				blk = &ast.BlockStmt{List: cc.Body}
			} else {
				return true
			}
		}
		for i, st := range blk.List {
			is, ok := st.(*ast.IfStmt)
			if !ok || len(is.Body.List) == 0 {
				continue
			}
			last := is.Body.List[len(is.Body.List)-1]
			switch {
			case returnsSentinel(last, *sentinel):
				nguards++
				gpos = is.Pos()
				if is.Else != nil {
					shapeErr = fmt.Errorf("raftquorum: guard of %s has an else part (unsupported shape)", *sentinel)
					continue
				}
				cond := is.Cond
				neg, ok := cond.(*ast.UnaryExpr)
				if !ok || neg.Op != token.NOT {
					shapeErr = fmt.Errorf("raftquorum: guard of %s is not of the form !%s(…)", *sentinel, goName)
					continue
				}
				if is.Init == nil {
					call = isCall(neg.X)
				} else if as, ok := is.Init.(*ast.AssignStmt); ok && len(as.Lhs) == 1 && len(as.Rhs) == 1 {
					l, ok1 := as.Lhs[0].(*ast.Ident)
					v, ok2 := neg.X.(*ast.Ident)
					if ok1 && ok2 && l.Name == v.Name {
						call = isCall(as.Rhs[0])
					}
				}
				if call == nil {
					shapeErr = fmt.Errorf("raftquorum: guard of %s does not test %s with two arguments", *sentinel, goName)
				}
			case returnsNil(last) && is.Init == nil && is.Else == nil && isCall(is.Cond) != nil:
				// `if f(a, b) { …; return nil }` followed — after value-less statements (logging) only — by `return Err`:
				// the inverted form of `if !f(a, b) { …; return Err }; return nil`
				j := i + 1
				for j < len(blk.List) {
					es, ok := blk.List[j].(*ast.ExprStmt)
					if !ok || !valueless(es.X) {
						break
					}
					j++
				}
				if j < len(blk.List) && returnsSentinel(blk.List[j], *sentinel) {
					nguards++
					gpos = is.Pos()
					call = isCall(is.Cond)
				}
			}
		}
		return true
	})
	if nguards != 1 {
		return fmt.Errorf("raftquorum: expected exactly one guarded `return %s` in %s, found %d", *sentinel, *fn, nguards)
	}
	if shapeErr != nil {
		return shapeErr
	}
	if call == nil {
		return fmt.Errorf("raftquorum: guard of %s not recognised", *sentinel)
	}
	// the Lean name of the closure is fixed
	call = &ast.CallExpr{Fun: &ast.Ident{Name: *closure}, Args: call.Args}
	// free identifiers of the arguments: `<recv>.N` (the cluster size of the progress report) and one plain local (the healthy count)
	params := []*ast.Field{}
	seen := map[string]bool{}
	recv := ""
	var bad error
	for _, a := range call.Args {
		ast.Inspect(a, func(n ast.Node) bool {
			switch x := n.(type) {
			case *ast.SelectorExpr:
				if id, ok := x.X.(*ast.Ident); ok && x.Sel.Name == "N" && (recv == "" || recv == id.Name) {
					recv = id.Name
					return false
				}
				bad = fmt.Errorf("raftquorum: unsupported selector %s in the guard", exprString(x))
				return false
			case *ast.Ident:
				if !seen[x.Name] {
					seen[x.Name] = true
					params = append(params, &ast.Field{Names: []*ast.Ident{{Name: x.Name}}, Type: &ast.Ident{Name: "int"}})
				}
			}
			return true
		})
	}
	if bad != nil {
		return bad
	}
	if recv == "" || len(params) != 1 {
		return fmt.Errorf("raftquorum: guard arguments are expected to be built from <progress>.N and one local (the healthy count) only")
	}
	d2 := &ast.FuncDecl{
		Name: &ast.Ident{Name: "removeKeepsQuorum", NamePos: gpos},
		Type: &ast.FuncType{Func: gpos, Params: &ast.FieldList{List: params}},
		Body: &ast.BlockStmt{List: []ast.Stmt{&ast.ReturnStmt{Results: []ast.Expr{call}}}},
	}
	f2 := &fnInfo{name: "removeKeepsQuorum", decl: d2, bool: true, recv: recv, fields: []string{"N"}}
	ctx.fns["removeKeepsQuorum"] = f2

	var b strings.Builder
	fmt.Fprintf(&b, "-- GENERATED by /verif/tools/goext raftquorum from %s (%s). Do not edit.\n", shortPath(file), *fn)
	fmt.Fprintf(&b, "namespace %s\n\n", *ns)
	for _, fi := range []*fnInfo{f1, f2} {
		s, err := ctx.emitFn(fi)
		if err != nil {
			return fmt.Errorf("raftquorum: %s: %v", fi.name, err)
		}
		b.WriteString(s)
	}
	fmt.Fprintf(&b, "end %s\n", *ns)
	if *out == "" {
		fmt.Print(b.String())
		return nil
	}
	return os.WriteFile(*out, []byte(b.String()), 0o644)
}
