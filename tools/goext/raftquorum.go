package main

// goext raftquorum -ns <Namespace> -o out.lean /repo/consensus/impl/raftv2/cluster.go
//
// Regenerates the quorum arithmetic of (*Cluster).isEnableChangeMembership (C16):
//
//   * the closure `isClusterAvilable := func(total int, healthy int) bool { quorum := total/2 + 1; …; return healthy >= quorum }`
//     (logger call statements are dropped: they have no value), and
//   * the guard of `return ErrRemoveHealthyNode`: the `if !isClusterAvilable(<a>, <b>)` statement, emitted as
//     `removeKeepsQuorum cp_N healthy := isClusterAvilable <a> <b>`.
//
// Both go through the integer-function translator of intfn.go, so anything outside its subset
// (a loop, another call, a changed shape of the guard) makes the command fail: the tie is then
// reported as broken instead of silently keeping an old definition.

import (
	"flag"
	"fmt"
	"go/ast"
	"go/parser"
	"go/token"
	"os"
	"strings"
)

func init() { register("raftquorum", cmdRaftQuorum) }

func rootIdent(e ast.Expr) string {
	for {
		switch x := e.(type) {
		case *ast.CallExpr:
			e = x.Fun
		case *ast.SelectorExpr:
			e = x.X
		case *ast.Ident:
			return x.Name
		default:
			return ""
		}
	}
}

func cmdRaftQuorum(args []string) error {
	fs := flag.NewFlagSet("raftquorum", flag.ContinueOnError)
	ns := fs.String("ns", "Aergo.Gen.RaftQuorum", "Lean namespace")
	out := fs.String("o", "", "output file")
	fn := fs.String("fn", "Cluster.isEnableChangeMembership", "enclosing method")
	closure := fs.String("closure", "isClusterAvilable", "name of the availability closure")
	sentinel := fs.String("err", "ErrRemoveHealthyNode", "error returned by the guarded branch")
	if err := fs.Parse(args); err != nil {
		return err
	}
	if len(fs.Args()) != 1 {
		return fmt.Errorf("raftquorum: need exactly one Go file")
	}
	file := fs.Args()[0]
	ctx := &intfnCtx{fset: token.NewFileSet(), consts: map[string]ast.Expr{}, gvars: map[string]bool{}, fns: map[string]*fnInfo{}}
	af, err := parser.ParseFile(ctx.fset, file, nil, parser.SkipObjectResolution)
	if err != nil {
		return err
	}
	var encl *ast.FuncDecl
	for _, d := range af.Decls {
		if fd, ok := d.(*ast.FuncDecl); ok && goFnKey(fd) == *fn {
			encl = fd
		}
	}
	if encl == nil {
		return fmt.Errorf("raftquorum: %s not found in %s (the tie to the source is broken)", *fn, file)
	}
	// 1. the closure
	var lit *ast.FuncLit
	nlit := 0
	ast.Inspect(encl.Body, func(n ast.Node) bool {
		as, ok := n.(*ast.AssignStmt)
		if !ok || len(as.Lhs) != 1 || len(as.Rhs) != 1 {
			return true
		}
		id, ok := as.Lhs[0].(*ast.Ident)
		if !ok || id.Name != *closure {
			return true
		}
		if l, ok := as.Rhs[0].(*ast.FuncLit); ok {
			lit = l
			nlit++
		}
		return true
	})
	if lit == nil || nlit != 1 {
		return fmt.Errorf("raftquorum: closure %s not found exactly once in %s (found %d)", *closure, *fn, nlit)
	}
	var body []ast.Stmt
	for _, st := range lit.Body.List {
		if es, ok := st.(*ast.ExprStmt); ok {
			if rootIdent(es.X) == "logger" {
				continue
			}
			return fmt.Errorf("raftquorum: unsupported expression statement in %s at %s", *closure, ctx.fset.Position(es.Pos()))
		}
		body = append(body, st)
	}
	d1 := &ast.FuncDecl{Name: &ast.Ident{Name: *closure, NamePos: lit.Pos()}, Type: lit.Type, Body: &ast.BlockStmt{List: body}}
	f1 := &fnInfo{name: *closure, decl: d1, bool: true}
	ctx.fns[*closure] = f1
	// 2. the guard of the sentinel error: every `if` whose body returns the sentinel
	var guards []*ast.IfStmt
	ast.Inspect(encl.Body, func(n ast.Node) bool {
		is, ok := n.(*ast.IfStmt)
		if !ok || len(is.Body.List) == 0 {
			return true
		}
		if rs, ok := is.Body.List[len(is.Body.List)-1].(*ast.ReturnStmt); ok && len(rs.Results) == 1 {
			if id, ok := rs.Results[0].(*ast.Ident); ok && id.Name == *sentinel {
				guards = append(guards, is)
			}
		}
		return true
	})
	if len(guards) != 1 {
		return fmt.Errorf("raftquorum: expected exactly one `if … { return %s }` in %s, found %d", *sentinel, *fn, len(guards))
	}
	g := guards[0]
	if g.Init != nil || g.Else != nil {
		return fmt.Errorf("raftquorum: guard of %s has an init or else part (unsupported shape)", *sentinel)
	}
	neg, ok := g.Cond.(*ast.UnaryExpr)
	if !ok || neg.Op != token.NOT {
		return fmt.Errorf("raftquorum: guard of %s is not of the form !%s(…)", *sentinel, *closure)
	}
	call, ok := neg.X.(*ast.CallExpr)
	if !ok {
		return fmt.Errorf("raftquorum: guard of %s is not of the form !%s(…)", *sentinel, *closure)
	}
	if id, ok := call.Fun.(*ast.Ident); !ok || id.Name != *closure || len(call.Args) != 2 {
		return fmt.Errorf("raftquorum: guard of %s does not call %s with two arguments", *sentinel, *closure)
	}
	// free identifiers of the arguments: `cp.N` (selector on cp) and plain locals
	params := []*ast.Field{}
	seen := map[string]bool{}
	usesCpN := false
	var bad error
	for _, a := range call.Args {
		ast.Inspect(a, func(n ast.Node) bool {
			switch x := n.(type) {
			case *ast.SelectorExpr:
				if id, ok := x.X.(*ast.Ident); ok && id.Name == "cp" && x.Sel.Name == "N" {
					usesCpN = true
					return false
				}
				bad = fmt.Errorf("raftquorum: unsupported selector %s in the guard", exprString(x))
				return false
			case *ast.Ident:
				if !seen[x.Name] {
					seen[x.Name] = true
					params = append(params, &ast.Field{Names: []*ast.Ident{{Name: x.Name}}, Type: &ast.Ident{Name: "int"}})
				}
			}
			return true
		})
	}
	if bad != nil {
		return bad
	}
	if !usesCpN || len(params) != 1 || params[0].Names[0].Name != "healthy" {
		return fmt.Errorf("raftquorum: guard arguments are expected to be built from cp.N and healthy only")
	}
	d2 := &ast.FuncDecl{
		Name: &ast.Ident{Name: "removeKeepsQuorum", NamePos: g.Pos()},
		Type: &ast.FuncType{Func: g.Pos(), Params: &ast.FieldList{List: params}},
		Body: &ast.BlockStmt{List: []ast.Stmt{&ast.ReturnStmt{Results: []ast.Expr{call}}}},
	}
	f2 := &fnInfo{name: "removeKeepsQuorum", decl: d2, bool: true, recv: "cp", fields: []string{"N"}}
	ctx.fns["removeKeepsQuorum"] = f2

	var b strings.Builder
	fmt.Fprintf(&b, "-- GENERATED by /verif/tools/goext raftquorum from %s (%s). Do not edit.\n", shortPath(file), *fn)
	fmt.Fprintf(&b, "namespace %s\n\n", *ns)
	for _, fi := range []*fnInfo{f1, f2} {
		s, err := ctx.emitFn(fi)
		if err != nil {
			return fmt.Errorf("raftquorum: %s: %v", fi.name, err)
		}
		b.WriteString(s)
	}
	fmt.Fprintf(&b, "end %s\n", *ns)
	if *out == "" {
		fmt.Print(b.String())
		return nil
	}
	return os.WriteFile(*out, []byte(b.String()), 0o644)
}
