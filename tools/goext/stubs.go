package main

import "fmt"

func cmdSites(args []string) error   { return fmt.Errorf("sites: not built yet") }
func cmdHostAPI(args []string) error { return fmt.Errorf("hostapi: not built yet") }
