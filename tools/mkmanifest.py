#!/usr/bin/env python3
"""Rewrite the checks / not_applicable sections of MANIFEST.json from tools/props.py."""
import json, os, sys
V = os.path.dirname(os.path.dirname(os.path.abspath(__file__)))
sys.path.insert(0, os.path.join(V, "tools"))
from props import CLAIMED as PROPS, NOT_YET
m = json.load(open(os.path.join(V, "MANIFEST.json")))
m["checks"] = []
for pid in sorted(PROPS):
    c = PROPS[pid]
    m["checks"].append({
        "property_id": pid,
        "quick_cmd": "./check %s --tier quick" % pid,
        "thorough_cmd": "./check %s --tier thorough" % pid,
        "evidence_file": "evidence/%s.json" % pid,
        "replay_cmd_template": "./check %s --replay {path}" % pid,
        "engine": "lean-model",
        "level_claimed": {"category": "proof", "text": c["level_text"], "design_ref": c.get("design_ref", "DESIGN.md §4 " + pid)},
        "level_note": c["level_note"],
        "technique": c.get("technique", "Lean 4 theorems over a model tied to the source by regeneration (goext) and differential correspondence (Go harness vs lean_exe driver)"),
    })
m["not_applicable"] = [{"property_id": p, "reason": r} for p, r in sorted(NOT_YET.items()) if p not in PROPS]
for e in m["engines"]:
    e["serves_properties"] = sorted(PROPS)
json.dump(m, open(os.path.join(V, "MANIFEST.json"), "w"), indent=1)
print("MANIFEST.json: %d checks, %d not claimed" % (len(m["checks"]), len(m["not_applicable"])))
