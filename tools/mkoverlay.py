#!/usr/bin/env python3
"""Generate a go build overlay for /repo's *current* working tree.

usage: mkoverlay.py <scratch-dir> [--repo /repo]
Writes <scratch-dir>/overlay.json and prints its path.

 * every regular file directly in /repo/contract is removed from the build except
   errors.go (kept) and contract.go (kept, with its unused `import "C"` line removed;
   copied from the current tree so edits to Execute are seen);
 * /verif/overlay/stub/*.go are added to package contract (pure-Go stub VM);
 * /verif/overlay/shims/<pkg path with / as __>/*.go are added to /repo/<pkg path>/
   as zz_verif_<name>.go (all carry //go:build verif);
 * /verif/harness/<name>/*.go become package /repo/zz_verif/<name>.
"""
import json, os, re, sys

def main():
    args = sys.argv[1:]
    repo = "/repo"
    if "--repo" in args:
        i = args.index("--repo"); repo = args[i + 1]; del args[i:i + 2]
    scratch = args[0]
    verif = os.path.dirname(os.path.dirname(os.path.abspath(__file__)))
    os.makedirs(scratch, exist_ok=True)
    rep = {}
    cdir = os.path.join(repo, "contract")
    for f in sorted(os.listdir(cdir)):
        p = os.path.join(cdir, f)
        if not os.path.isfile(p):
            continue
        if f == "errors.go":
            continue
        if f == "contract.go":
            src = open(p).read()
            src2, n = re.subn(r'(?m)^import "C"\s*$', "", src, count=1)
            out = os.path.join(scratch, "contract.go")
            open(out, "w").write(src2)
            rep[p] = out
            continue
        if f.endswith((".go", ".c", ".h", ".lua")):
            rep[p] = ""
    for f in sorted(os.listdir(os.path.join(verif, "overlay", "stub"))):
        if f.endswith(".go"):
            rep[os.path.join(cdir, "zz_verif_" + f)] = os.path.join(verif, "overlay", "stub", f)
    sh = os.path.join(verif, "overlay", "shims")
    for d in sorted(os.listdir(sh)):
        pkg = d.replace("__", "/")
        for f in sorted(os.listdir(os.path.join(sh, d))):
            if f.endswith(".go"):
                rep[os.path.join(repo, pkg, "zz_verif_" + f)] = os.path.join(sh, d, f)
    hd = os.path.join(verif, "harness")
    for d in sorted(os.listdir(hd)):
        if not os.path.isdir(os.path.join(hd, d)):
            continue
        for f in sorted(os.listdir(os.path.join(hd, d))):
            if f.endswith(".go"):
                rep[os.path.join(repo, "zz_verif", d, f)] = os.path.join(hd, d, f)
    out = os.path.join(scratch, "overlay.json")
    json.dump({"Replace": rep}, open(out, "w"), indent=1)
    print(out)

if __name__ == "__main__":
    main()
