#!/usr/bin/env python3
# usage: mk.py <worktree>  -> writes <worktree>/.ov/overlay.json (replaces the cgo VM files of package contract by a pure-Go stub)
import json, os, re, sys
wt=sys.argv[1]; out=os.path.join(wt,'.ov'); os.makedirs(out,exist_ok=True)
rep={}; cdir=os.path.join(wt,'contract')
for f in sorted(os.listdir(cdir)):
    p=os.path.join(cdir,f)
    if not os.path.isfile(p) or f=='errors.go': continue
    if f=='contract.go':
        src=re.sub(r'(?m)^import "C"\s*$','',open(p).read(),count=1); o=os.path.join(out,'contract.go'); open(o,'w').write(src); rep[p]=o; continue
    if f.endswith(('.go','.c','.h','.lua')): rep[p]=''
rep[os.path.join(cdir,'zz_stub.go')]='/tmp/mut-ov/vmstub.go'
json.dump({'Replace':rep},open(os.path.join(out,'overlay.json'),'w'),indent=1); print(os.path.join(out,'overlay.json'))
