#!/usr/bin/env python3
"""Import behaviour-preserving changes delivered by a sub-agent (<wt>/out/<i>/{patch.diff,meta.json}) into
/verif/neutral/<Cxx>-<i>/ (after checking that the patch applies to /repo's HEAD) — the false-alarm side of the
seeded-change experiment: the registered checks must stay quiet on them (tools/seedtest.py neutral/<id> --neutral).
usage: neutralimport.py <agent worktree> <Cxx>"""
import json, os, shutil, subprocess, sys
V = os.path.dirname(os.path.dirname(os.path.abspath(__file__)))
src, prop = sys.argv[1], sys.argv[2]
for i in sorted(os.listdir(os.path.join(src, "out"))):
    d = os.path.join(src, "out", i)
    if not os.path.exists(os.path.join(d, "patch.diff")):
        continue
    rc = subprocess.run(["git", "-C", "/repo", "apply", "--check", os.path.join(d, "patch.diff")]).returncode
    if rc != 0:
        print(prop, i, "patch does not apply to /repo HEAD: skipped")
        continue
    dst = os.path.join(V, "neutral", "%s-%s" % (prop, i))
    os.makedirs(dst, exist_ok=True)
    shutil.copy(os.path.join(d, "patch.diff"), dst)
    m = json.load(open(os.path.join(d, "meta.json")))
    m["property"] = prop
    json.dump(m, open(os.path.join(dst, "meta.json"), "w"), indent=1)
    print("imported", dst)
