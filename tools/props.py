"""Per-property configuration of ./check, one JSON file per property in tools/props.d/:

  gen         goext invocations that regenerate Lean files from the source ({repo} is substituted)
  lean_props  Lean modules holding the property theorems (every non-private `theorem` is an obligation)
  harness     Go harness package under /verif/harness/<name> (injected at /repo/zz_verif/<name>)
  driver      lean_exe target of the model driver (default model-<id lower-case>); "" = no model trace
  claimed     listed in MANIFEST.json only when true
  level_text, level_note, model, residual, assumptions, trusted_base, timeout{quick,thorough}
"""
import glob, json, os

_D = os.path.join(os.path.dirname(os.path.abspath(__file__)), "props.d")
ALL = {}
for _f in sorted(glob.glob(os.path.join(_D, "C*.json"))):
    ALL[os.path.basename(_f)[:-5]] = json.load(open(_f))
PROPS = ALL
CLAIMED = {k: v for k, v in ALL.items() if v.get("claimed")}

NOT_YET = {p: "check not yet built in this round; planned per DESIGN.md section 4 (Lean model + theorems + correspondence harness)"
           for p in ["C%02d" % i for i in range(1, 21)]}
