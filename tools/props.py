"""Per-property configuration of ./check: which model parts are regenerated, which Lean modules
hold the property theorems, which Go harness and model-driver layer form the correspondence."""

SLOT_GEN = {"cmd": "intfn", "out": "Aergo/Gen/Slot.lean",
            "args": ["-ns", "Aergo.Gen.Slot", "{repo}/consensus/impl/dpos/slot/slot.go",
                     "nsToMs", "msToIndex", "msToPrevIndex", "msToNextIndex", "Slot.NextBpIndex", "Slot.IsFor"]}
ENC_GEN = {"cmd": "fields", "out": "Aergo/Gen/Enc.lean", "args": ["-repo", "{repo}"]}

PROPS = {
    "C09": {
        "gen": [SLOT_GEN, ENC_GEN],
        "lean_props": ["Aergo.Props.C09"],
        "harness": "c09",
        "layer": "c09",
        "model": "Aergo.Gen.Slot (regenerated from slot.go) + Aergo.Model.Slot (fromUnixNs, IsFuture, Cluster index, IsBlockValid) + Aergo.Gen.Enc header digest field lists",
        "residual": "libp2p secp256k1 signature verification is an assumed-sound primitive; time.Now is read by the harness, not modelled",
        "assumptions": ["ECDSA verification is sound", "producer set size 1..65534 (Go panics on size 0: integer modulo by zero)"],
        "level_text": "Machine-checked Lean 4 theorems, for every timestamp, interval and producer-set size: a slot index has one owner index (owner_unique), positive instants are tiled by disjoint half-open slots (slots_partition, slot_of_instant_unique), round-robin rotation and coverage (rotation, round_covers_all), IsFuture = two or more slots ahead (isFuture_iff), producer id -> index is injective (index_injective), IsBlockValid accepts exactly members whose index owns the slot (blockValid_sound/complete) and never two producers for one instant (no_two_producers). The slot arithmetic the theorems talk about is regenerated from slot.go by tools/goext on every run; fromUnixNs/IsBlockValid/Cluster glue and the header sign digest are tied by a Go harness running the real code (slot sweep around round boundaries, signed blocks, every header-field mutation) against the lean_exe model driver.",
        "level_note": "Trusted: Lean kernel; goext intfn/fields translators; harness+overlay; secp256k1 verification assumed sound (signature clause: the signed digest reads every header field except Sign - theorem in Props/C19 over the regenerated field lists, exercised here by mutation). int64 modelled as unbounded Int (|ns| < 2^62).",
        "trusted_base": ["int64 arithmetic modelled on unbounded Int with truncating division (Int.tdiv/Int.tmod); |ns| < 2^62 in the correspondence"],
    },
}

NOT_YET = {p: "check not yet built in this round; planned per DESIGN.md section 4 (Lean model + theorems + correspondence harness)" for p in
           ["C%02d" % i for i in range(1, 21)]}
