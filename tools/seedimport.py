#!/usr/bin/env python3
"""(needs /tmp/mut-ov/{mk.py,vmstub.go}: `mkdir -p /tmp/mut-ov && cp tools/mutov/* /tmp/mut-ov/` — the
stub path is fixed because the agents' demo commands name it)
Import seeded changes delivered by a sub-agent (<wt>/out/<i>/{patch.diff,demo_test.go|*,meta.json}) into
/verif/seeded/<Cxx>-<tag><i>/ after confirming them in a fresh scratch worktree:
  the demonstration passes on the unchanged tree, fails with the patch, and the existing tests of the touched
  packages still pass with the patch.      usage: seedimport.py <agent worktree> <Cxx> [--overlay]"""
import json, os, shutil, subprocess, sys
V = os.path.dirname(os.path.dirname(os.path.abspath(__file__)))
ENV = dict(os.environ, GOFLAGS="-mod=mod", GOPROXY="off")

def sh(cmd, cwd=None, timeout=3000):
    p = subprocess.run(cmd, cwd=cwd, env=ENV, shell=isinstance(cmd, str), stdout=subprocess.PIPE, stderr=subprocess.STDOUT, text=True, timeout=timeout)
    return p.returncode, p.stdout

def main():
    src, prop = sys.argv[1], sys.argv[2]
    overlay = "--overlay" in sys.argv
    prefix = next((a.split("=", 1)[1] for a in sys.argv if a.startswith("--prefix=")), "")
    outd = os.path.join(src, "out")
    for i in sorted(os.listdir(outd)):
        d = os.path.join(outd, i)
        if not os.path.isdir(d) or not os.path.exists(os.path.join(d, "patch.diff")):
            continue
        meta = json.load(open(os.path.join(d, "meta.json")))
        name = "%s-%s%s" % (prop, prefix, i)
        dst = os.path.join(V, "seeded", name)
        wt = "/tmp/seedimp-" + name.lower()
        sh(["git", "-C", "/repo", "worktree", "remove", "--force", wt])
        sh(["git", "-C", "/repo", "worktree", "add", "--detach", wt, "HEAD"])
        try:
            demo_path = (meta.get("demo_path") or "").split()[0] if (meta.get("demo_path") or "").split() else ""
            meta["demo_path"] = demo_path
            demo_files = sorted(f for f in os.listdir(d) if f not in ("patch.diff", "meta.json") and not f.endswith((".txt", ".log", ".out")))
            if demo_path.endswith(".go") and [f for f in demo_files if f.endswith(".go")]:
                demo_files = [f for f in demo_files if f.endswith(".go")]
            ov = []
            if overlay:
                sh(["python3", "/tmp/mut-ov/mk.py", wt])
                ov = ["-tags", "verif", "-overlay", os.path.join(wt, ".ov", "overlay.json")]
            def place():
                if demo_path and demo_files:
                    tgt = os.path.join(wt, demo_path)
                    if demo_path.endswith(".go"):
                        os.makedirs(os.path.dirname(tgt), exist_ok=True)
                        shutil.copy(os.path.join(d, demo_files[0]), tgt)
                    else:
                        os.makedirs(tgt, exist_ok=True)
                        for f in demo_files:
                            shutil.copy(os.path.join(d, f), os.path.join(tgt, f))
            place()
            cmd = meta.get("demo_cmd", "")
            cmd = cmd.replace(src, wt).replace("WT/", wt + "/").replace("<worktree>", wt)
            import re as _re
            segs = [x.strip() for x in _re.split(r"&&|;", cmd)]
            gos = [x for x in segs if "go test" in x or "go run" in x]
            if gos:
                cmd = gos[-1]
            meta["demo_cmd"] = cmd.replace(wt, "<worktree>")
            if overlay and "-overlay" not in cmd:
                cmd = cmd.replace("go test", "go test " + " ".join(ov), 1)
            # a Go test demo: do not trust the agent's command line (placeholders, shell syntax): run the Test functions
            # of the demo file in its package
            if demo_path.endswith("_test.go") and demo_files:
                names = _re.findall(r"(?m)^func (Test\w+)\(", open(os.path.join(d, demo_files[0])).read())
                if names:
                    cmd = "go test -vet=off -count=1 %s -run '^(%s)$' ./%s/" % (" ".join(ov), "|".join(names), os.path.dirname(demo_path))
                    meta["demo_cmd"] = cmd.replace(wt, "<worktree>")
            rc0, o0 = sh("export GOFLAGS=-mod=mod GOPROXY=off; " + cmd, cwd=wt)
            rca, oa = sh(["git", "apply", os.path.join(d, "patch.diff")], cwd=wt)
            if rca != 0:  # /repo has moved on (fix commits) since the agent's worktree was made: merge
                rca, oa2 = sh(["git", "apply", "--3way", os.path.join(d, "patch.diff")], cwd=wt)
                oa += oa2
                if rca == 0:  # keep the rebased patch instead of the agent's
                    rebased = sh(["git", "diff", "HEAD"], cwd=wt)[1]
                    open(os.path.join(d, "patch.diff"), "w").write(rebased)
            if overlay:
                sh(["python3", "/tmp/mut-ov/mk.py", wt])  # contract/contract.go is copied into the overlay: refresh it
            rc1, o1 = sh("export GOFLAGS=-mod=mod GOPROXY=off; " + cmd, cwd=wt)
            # existing tests of touched packages (without the demo file)
            if demo_path.endswith(".go"):
                os.remove(os.path.join(wt, demo_path))
            pkgs = sorted(set("./" + os.path.dirname(f) + "/" for f in meta.get("files_touched", [])))
            rc2, o2 = sh(["go", "test", "-vet=off", "-count=1", "-skip", "Test_SetupSelfMeta|TestResolve"] + ov + pkgs, cwd=wt)  # (those need DNS)
            ok = rc0 == 0 and rca == 0 and rc1 != 0 and rc2 == 0
            print("%s: demo unchanged=%s patched=%s existing-tests=%s -> %s" % (name, "pass" if rc0 == 0 else "FAIL", "fail" if rc1 != 0 else "PASS", "pass" if rc2 == 0 else "FAIL", "confirmed" if ok else "REJECTED"))
            if not ok:
                print(o0[-400:], oa[-300:], o1[-400:], o2[-400:])
                continue
            os.makedirs(dst, exist_ok=True)
            for f in os.listdir(d):
                shutil.copy(os.path.join(d, f), os.path.join(dst, f))
            meta["property"] = prop
            meta["confirmed_by_lead"] = {"repo_head": sh(["git", "-C", "/repo", "rev-parse", "--short", "HEAD"])[1].strip(),
                                         "demo_on_unchanged_tree": "pass", "demo_with_patch": "fail: " + o1.strip()[-300:],
                                         "existing_tests_with_patch": "pass: go test -vet=off -count=1 " + " ".join(pkgs),
                                         "needs_overlay": overlay}
            json.dump(meta, open(os.path.join(dst, "meta.json"), "w"), indent=1)
        finally:
            sh(["git", "-C", "/repo", "worktree", "remove", "--force", wt])

if __name__ == "__main__":
    main()
