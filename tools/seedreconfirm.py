#!/usr/bin/env python3
"""Re-confirm seeded changes against /repo's CURRENT head (after fix commits): in a fresh scratch worktree the
demonstration must pass unchanged and fail with the patch (3-way applied if needed; the rebased patch is kept).
usage: seedreconfirm.py [seeded/<id> ...]   (default: all).  Writes meta.json["reconfirmed"] = {repo_head, status}."""
import glob, json, os, re, shutil, subprocess, sys
V = os.path.dirname(os.path.dirname(os.path.abspath(__file__)))
ENV = dict(os.environ, GOFLAGS="-mod=mod", GOPROXY="off")

def sh(cmd, cwd=None, timeout=3000):
    p = subprocess.run(cmd, cwd=cwd, env=ENV, shell=isinstance(cmd, str), stdout=subprocess.PIPE, stderr=subprocess.STDOUT, text=True, timeout=timeout)
    return p.returncode, p.stdout

def one(sd):
    name = os.path.basename(sd)
    meta = json.load(open(os.path.join(sd, "meta.json")))
    head = sh(["git", "-C", "/repo", "rev-parse", "--short", "HEAD"])[1].strip()
    wt = "/tmp/seedrc-" + name.lower()
    sh(["git", "-C", "/repo", "worktree", "remove", "--force", wt])
    sh(["git", "-C", "/repo", "worktree", "add", "--detach", wt, "HEAD"])
    status, detail = "", ""
    try:
        overlay = bool((meta.get("confirmed_by_lead") or {}).get("needs_overlay")) or "-overlay" in (meta.get("demo_cmd") or "")
        demo_path = (meta.get("demo_path") or "").split()[0] if (meta.get("demo_path") or "").split() else ""
        demo_files = sorted(f for f in os.listdir(sd) if f not in ("patch.diff", "meta.json", "result.json") and not f.endswith((".txt", ".log", ".out")))
        if demo_path.endswith(".go") and [f for f in demo_files if f.endswith(".go")]:
            demo_files = [f for f in demo_files if f.endswith(".go")]
        if not demo_path or not demo_files:
            return name, "no-demo", ""
        tgt = os.path.join(wt, demo_path)
        if demo_path.endswith(".go"):
            os.makedirs(os.path.dirname(tgt), exist_ok=True)
            shutil.copy(os.path.join(sd, demo_files[0]), tgt)
        else:
            os.makedirs(tgt, exist_ok=True)
            for f in demo_files:
                shutil.copy(os.path.join(sd, f), os.path.join(tgt, f))
        if overlay:
            sh(["python3", "/tmp/mut-ov/mk.py", wt])
        cmd = (meta.get("demo_cmd") or "").replace("<worktree>", wt)
        segs = [x.strip() for x in re.split(r"&&|;", cmd)]
        gos = [x for x in segs if "go test" in x or "go run" in x]
        if gos:
            cmd = gos[-1]
        cmd = re.sub(r"-overlay \S+", "-overlay " + os.path.join(wt, ".ov", "overlay.json"), cmd)
        if overlay and "-overlay" not in cmd:
            cmd = cmd.replace("go test", "go test -tags verif -overlay " + os.path.join(wt, ".ov", "overlay.json"), 1)
        rc0, o0 = sh("export GOFLAGS=-mod=mod GOPROXY=off; " + cmd, cwd=wt)
        if rc0 != 0:
            return name, "demo-fails-on-unchanged-head", o0[-400:]
        rca, oa = sh(["git", "apply", os.path.join(sd, "patch.diff")], cwd=wt)
        rebased = None
        if rca != 0:
            rca, oa = sh(["git", "apply", "--3way", os.path.join(sd, "patch.diff")], cwd=wt)
            if rca == 0:
                sh(["git", "reset", "-q"], cwd=wt)
                rebased = sh(["git", "diff", "HEAD", "--", "."] , cwd=wt)[1]
        if rca != 0:
            return name, "patch-does-not-apply", oa[-300:]
        if overlay:
            sh(["python3", "/tmp/mut-ov/mk.py", wt])
        rc1, o1 = sh("export GOFLAGS=-mod=mod GOPROXY=off; " + cmd, cwd=wt)
        if rc1 == 0:
            return name, "no-longer-breaks-the-demo", ""
        if rebased:
            # keep only the patch's own files (the demo file is untracked, so not in the diff)
            open(os.path.join(sd, "patch.diff"), "w").write(rebased)
        return name, "confirmed" + (" (rebased)" if rebased else ""), o1.strip()[-200:]
    finally:
        sh(["git", "-C", "/repo", "worktree", "remove", "--force", wt])

def main():
    dirs = [os.path.abspath(a) for a in sys.argv[1:]] or sorted(glob.glob(os.path.join(V, "seeded", "C*")))
    head = sh(["git", "-C", "/repo", "rev-parse", "--short", "HEAD"])[1].strip()
    for sd in dirs:
        try:
            name, status, detail = one(sd)
        except Exception as e:  # noqa
            name, status, detail = os.path.basename(sd), "error", str(e)
        mp = os.path.join(sd, "meta.json")
        meta = json.load(open(mp))
        meta["reconfirmed"] = {"repo_head": head, "status": status, "detail": detail[:300]}
        json.dump(meta, open(mp, "w"), indent=1)
        print(name, status, flush=True)

if __name__ == "__main__":
    main()
