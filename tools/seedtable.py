#!/usr/bin/env python3
"""Print the markdown table of seeded breaking changes and which check caught them (from seeded/*/meta.json, result.json)."""
import glob, json, os
V = os.path.dirname(os.path.dirname(os.path.abspath(__file__)))
print("| seeded change | what it changes (needs) | check | result | first replay / reason |")
print("|---|---|---|---|---|")
for d in sorted(glob.glob(os.path.join(V, "seeded", "C*"))):
    m = json.load(open(os.path.join(d, "meta.json")))
    rp = os.path.join(d, "result.json")
    r = json.load(open(rp)) if os.path.exists(rp) else {}
    summ = (m.get("summary") or "").replace("|", "/").replace("\n", " ")[:150]
    need = (m.get("what_it_needs_to_manifest") or "").replace("|", "/").replace("\n", " ")[:120]
    if m.get("retired"):
        print("| %s | %s (%s) | - | retired | %s |" % (os.path.basename(d), summ, need, m["retired"][:160].replace("|", "/")))
        continue
    for p, c in (r.get("checks") or {"-": {"exit": None, "violations": 0}}).items():
        res = "not run" if c["exit"] is None else ("caught" if c["exit"] == 1 and c["violations"] else "**MISSED**")
        if c.get("no_failing_input_found"):
            res += " (no-failing-input-found)"
        first = (c.get("first") or "").replace("|", "/").replace("\n", " ")[:110]
        print("| %s | %s (%s) | %s | %s | %s |" % (os.path.basename(d), summ, need, p, res, first))
