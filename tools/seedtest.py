#!/usr/bin/env python3
"""Run the registered checks against a seeded breaking change (or, with --neutral, a behaviour-preserving
change under neutral/<id>/, where the expected outcome is exit 0 and no VIOLATION line), in a scratch worktree.

usage: seedtest.py <seeded dir> [Cxx ...]      e.g. tools/seedtest.py seeded/C10-1 C10 C12

The change is applied to a scratch worktree of /repo's HEAD (never to /repo itself, builders may be
running there) and the checks run with VERIF_REPO / VERIF_LEAN pointing at scratch copies. Prints one
line per check: caught / MISSED, with the VIOLATION lines, and writes <seeded dir>/result.json.
"""
import json, os, shutil, subprocess, sys, time

V = os.path.dirname(os.path.dirname(os.path.abspath(__file__)))


def sh(cmd, **kw):
    p = subprocess.run(cmd, stdout=subprocess.PIPE, stderr=subprocess.STDOUT, text=True, **kw)
    return p.returncode, p.stdout


def main():
    sd = os.path.abspath(sys.argv[1])
    meta = json.load(open(os.path.join(sd, "meta.json")))
    neutral = "--neutral" in sys.argv
    props = [a for a in sys.argv[2:] if not a.startswith("--")] or [meta["property"]]
    tag = (os.path.basename(os.path.dirname(sd)) + "-" + os.path.basename(sd)).lower()  # seeded-c16-1 vs neutral-c16-1
    wt = "/tmp/seed-wt-" + tag
    lean = "/var/tmp/seed-lean-" + tag
    sh(["git", "-C", "/repo", "worktree", "remove", "--force", wt])
    shutil.rmtree(lean, ignore_errors=True)
    rc, o = sh(["git", "-C", "/repo", "worktree", "add", "--detach", wt, "HEAD"])
    if rc != 0:
        print(o)
        return 2
    res = {"seeded": os.path.basename(sd), "repo_head": sh(["git", "-C", "/repo", "rev-parse", "--short", "HEAD"])[1].strip(), "checks": {}}
    try:
        rc, o = sh(["git", "-C", wt, "apply", os.path.join(sd, "patch.diff")])
        if rc != 0:
            rc, o = sh(["git", "-C", wt, "apply", "--3way", os.path.join(sd, "patch.diff")])
        if rc != 0:
            print("patch does not apply:", o)
            res["error"] = "patch does not apply: " + o
            return 2
        # (builders may be compiling in /verif/lean: files can vanish under copytree; rsync tolerates that)
        for _ in range(3):
            rcc, oc = sh(["rsync", "-a", "--delete", os.path.join(V, "lean") + "/", lean + "/"])
            if rcc in (0, 24):
                break
        evid = "/var/tmp/seed-evid-" + tag
        env = dict(os.environ, VERIF_REPO=wt, VERIF_LEAN=lean, VERIF_EVIDENCE=evid)
        for p in props:
            t0 = time.time()
            rc, o = sh([os.path.join(V, "check"), p, "--tier", "quick"], env=env, cwd=V)
            viol = [l for l in o.split("\n") if l.startswith("VIOLATION")]
            first = ""
            if viol:
                rp = viol[0].split("replay=")[1].split()[0]
                try:
                    r = json.load(open(rp))
                    first = (r.get("what") or "")[:300]
                    if r.get("no_longer_checks"):
                        first += " | " + "; ".join(b["name"] for b in r["no_longer_checks"])[:300]
                except Exception as e:  # noqa
                    first = str(e)
            res["checks"][p] = {"exit": rc, "violations": len(viol), "no_failing_input_found": any("no-failing-input-found" in l for l in viol),
                                "first": first, "wall_s": round(time.time() - t0, 1)}
            print("%s on %s: %s (exit %d, %d VIOLATION lines%s) %s" % (
                p, os.path.basename(sd), (("quiet" if rc == 0 and not viol else "ALARM") if neutral else ("caught" if rc == 1 and viol else "MISSED")), rc, len(viol),
                ", no-failing-input-found" if res["checks"][p]["no_failing_input_found"] else "", first[:200]))
    finally:
        json.dump(res, open(os.path.join(sd, "result.json"), "w"), indent=1)
        sh(["git", "-C", "/repo", "worktree", "remove", "--force", wt])
        shutil.rmtree(lean, ignore_errors=True)
    return 0


if __name__ == "__main__":
    sys.exit(main())
